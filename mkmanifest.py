#!/usr/bin/env python3
# Regenerates MANIFEST.json from the table below (kept next to the checks so the two stay in step).
import json, subprocess
CHECKS = {
 "C01": ("fault_enumeration", "child-process isolation + recover(): every call must return; cut points x terminal reader behaviours enumerated per file",
   "For every corpus/generated file and natural entry point, every cut point of a dense prefix and every structure boundary is crossed with five terminal reader behaviours; structure-aware malformations (incl. wrap-around counts), grammar-based shapes (tightly packed ISOBMFF trees, TIFF directories with cooperating unusual fields, pending-tag overflow, PNG back-seeks, CR3 files with a nested header at a 4 KiB buffer boundary) and random bytes are added from a seeded list. The oracle is 'the call returned' (panic caught by recover, fatal error seen as worker death). Held on the executions produced, not a proof.",
   "Trusted: Go's recover()/exit status as the crash observer; walkers that find the structural fields; sample files capped at 96 KiB.", "3/C01"),
 "C02": ("exploration", "instrumented io.ReadSeeker (byte/seek/EOF-read counters) + per-call CPU-time watchdog (rusage)",
   "Every decode entry point is run over an instrumented reader on corpus files, structure-aware malformations, loop-targeted shapes and random inputs (up to 1 MiB thorough). The oracle compares the reader's counters with the linear bound and a CPU-time budget per call; 'terminates' is thereby restated as bounded progress.",
   "Trusted: getrusage CPU accounting; the bound is judged on a full-delivery reader; reads issued at end of input deliver nothing and are bounded by count (len/8+512), not by len(p).", "3/C02"),
 "C03": ("exploration", "reference-model monitor: generator-held logical record vs decoded Exif, field by field",
   "A harness-owned TIFF writer serialises a random logical record in a random forward layout with foreign tags; the real decoders run on it from pristine state and every reported field (incl. accessor outputs) is compared with the expectation computed from the record per the Exif/TIFF specification.",
   "Trusted: the harness's TIFF writer and reference semantics (appendix A of DESIGN.md); the library's own name->enum tables for camera models; domains restricted to well-formed, in-range values.", "3/C03"),
 "C04": ("exploration", "metamorphic monitor over histories: pristine vs after-real-history vs poisoned pools (verif hooks), plus immutability re-observation",
   "The same call is executed on pristine state, after a real history of other calls in the same process (GOMAXPROCS=1, GC off, so sync.Pool returns the same objects) and under poisoned pools; canonical observations must be identical. Returned Exif/XMP/preview values are re-observed after later calls.",
   "Trusted: the verif hooks (add-only) that replace pool variables at quiescent points; poison contents are states a legal earlier decode can leave.", "3/C04"),
 "C05": ("exploration", "Go race detector (-race build, reports parsed from GORACE log_path and de-duplicated by imagemeta frame pair) over a barrier-started, result-checking stress workload; per-call comparison with sequential golden observations; idle-deadlock watchdog; cold-start bursts in fresh race-build processes",
   "Rounds of 2-64 goroutines under GOMAXPROCS 1-32 perform seeded mixes of every decode/scan/parse/sniff/hash entry point on their own readers (valid, truncated, mutated files; TIFFs with fresh and conflicting OffsetTime strings so that zone-cache misses overlap; images for all hash functions) with yields injected at the reader boundary; the race detector must stay silent, every result must equal the result of the same call run alone on pristine state, nothing may panic, and a round must not stall CPU-idle. A quarter of the rounds flood the zone cache past its capacity; a third of the cases also start a fresh process of the race build in which 8 goroutines make the same kind of call as the very first library calls of that process (17 kinds) and then repeat them sequentially. Evidence reports the overlap actually achieved (distinct in-flight signatures, completion orders, overlapping cache misses).",
   "Trusted: the Go race detector (reports only races that occur); schedules are sampled, not enumerated; goldens come from the same binary run sequentially.", "3/C05"),
 "C06": ("exploration", "differential + reference-model monitor across containers built by the harness",
   "One generated Exif payload is embedded in TIFF, CR2, JPEG, PNG, CR3 and HEIF files (32- and 64-bit mdat headers, one or two mdat boxes) written by the harness with random surroundings; every container's decode entry points must report the same fields as the bare TIFF and as the reference expectation, with the container's image type.",
   "Trusted: the harness's container writers (JPEG segments, PNG chunks with CRCs, ISOBMFF boxes); CR3 stores the three directories as three TIFF blobs.", "3/C06"),
 "C07": ("exploration", "paired differential monitor: II vs MM builds of the same record, layout and surroundings",
   "Each record/layout is serialised twice from the same streams, once per byte order, embedded in all five containers and decoded from pristine state; observations and errors of the pair must be identical.",
   "Trusted: the harness's writers produce pairs that differ in byte order only.", "3/C07"),
 "C08": ("fault_enumeration", "metamorphic monitor: fixed list of chunk schedules (incl. data+EOF) enumerated per input vs in-memory reader",
   "Every input (files, truncations incl. cuts inside out-of-line values, malformations, grammar-based shapes) is decoded over an in-memory reader and then over every schedule of a fixed list of short-read schedules (1 byte ... 4097, 64 KiB, mixed cycles, data delivered together with io.EOF, whole requests with data+EOF on the last read, and once over a source that now and then returns (0, nil)) with a working Seek; canonical observations must be identical.",
   "Trusted: the instrumented reader implements the io.Reader contract ((0, nil) only in the runs that say so, never twice in a row).", "3/C08"),
 "C09": ("exploration", "exhaustive perturbation enumeration against an independent signature table; cross-entry agreement monitor",
   "All single-byte perturbations of 31 canonical headers, suffix/truncation variants and seeded random/two-byte perturbations go through Buf, Scan, ScanBuf and ReadAt, and through Scan/ScanBuf over one-byte, uneven, data+EOF and zero-read readers; agreement, prefix-only dependence, non-consumption, error mapping, soundness and completeness against the harness's own signature table are asserted.",
   "Trusted: the harness's signature table (liberal form for soundness, documented standard form for completeness).", "3/C09"),
 "C10": ("exploration", "reference-model monitor: generator-held segment list vs recording callbacks of ScanJPEG",
   "Marker streams are generated with recorded offsets and payloads; recording callbacks implement the consumption behaviours the property quantifies over; callback order, header fields (absolute TIFF offset), readable bytes and the final error are compared with the record.",
   "Trusted: the harness's JPEG writer; fill bytes and parameterless markers are not generated in the header area.", "3/C10"),
 "C11": ("exploration", "position monitor on a harness-owned bufio.Reader + recording callbacks vs generator-held box tree",
   "Random box trees (well-formed; with a child or a whole chain of last children over/understating its size; with a nested header at a 4 KiB buffer boundary; with minimal TIFF blocks; HEIF-shaped files with 32/64-bit and one or two mdat boxes) are read through isobmff.Reader with callbacks that read all, part or nothing and sometimes report an error; the stream position after every top-level box and the bytes/headers seen by the Exif (CMT1-4 and the HEIF Exif item), XMP and preview callbacks are compared with the tree.",
   "Trusted: the harness's box writer; top-level boxes are well-formed in every case.", "3/C11"),
 "C12": ("exploration", "exhaustive prefix enumeration against a naive search in the harness",
   "Every prefix over the signature alphabet up to length 7 (10 thorough) and random prefixes around buffer-refill boundaries precede an II/MM header; offset, byte order, first-IFD offset, reader position and the ErrNoExif condition are compared with a naive search of the same bytes; the entry points that locate a block by this search must agree on it, also from readers positioned at 2 GiB..1 TiB of a virtual object.",
   "Trusted: the naive search; bufio.Reader arguments have at least 32 bytes of buffer.", "3/C12"),
 "C13": ("exploration", "reference-model monitor: generator-held XMP record vs parse result, attribute vs element differential, length sweep",
   "Records of supported properties are serialised by the harness in attribute, element and mixed form with style variation and unknown properties; parse results are compared with the record and with each other; one property's value length is swept over 1..1100 in both forms; over-long tokens must not yield a wrong value.",
   "Trusted: the harness's XMP writer; values avoid XML-special characters; date/UUID forms restricted to those the package documents.", "3/C13"),
 "C14": ("exploration", "runtime.MemStats.TotalAlloc delta around each call in a single-goroutine worker; RLIMIT_AS back-stop",
   "Each call runs alone between two ReadMemStats; inputs are corpus files, malformations and size-field attacks aimed at every allocation site fed by a file-derived number. Refuted by a delta above 4 MiB + 16*len or an out-of-memory death of the worker.",
   "Trusted: TotalAlloc (heap only; stack growth not measured); harness allocations inside the call are within the 4 MiB constant.", "3/C14"),
 "C15": ("exploration", "configuration differential in-process (default loggers saved/restored) + fd 1/2 size sampling around default-configuration calls",
   "Every input is decoded with the default loggers while the worker's stdout/stderr file sizes are sampled, then under every level x writer kind; observations must equal the default run and no panic may occur.",
   "Trusted: fstat on the worker's redirected fd 1/2; zerolog's own stderr report for failing writers is outside the default configuration.", "3/C15"),
 "C16": ("exploration", "round-trip identities executed on the real methods over exhaustive 8/16-bit domains and seeded wide values; totality under recover()",
   "MessagePack, text, JSON and binary forms of every value type are round-tripped (exhaustively for 8/16-bit domains, all 65536 ExposureBias encodings, all UUID text forms) and every decoder with an error result is fed hostile input under recover().",
   "Trusted: encoding/json and tinylib/msgp runtime; the stated validity domains.", "3/C16"),
 "C17": ("exploration", "exhaustive enumeration of enum domains against harness name tables under recover()",
   "String/Extension/TagName/FromString/Identify* are called on every value of every exported enum and identifier type (incl. negative halves and IfdType x tag id) and compared with tables written from the doc comments and the value lists they cite; the last 32 returned strings are kept as returned and re-read after later calls.",
   "Trusted: the harness's name tables.", "3/C17"),
 "C18": ("exploration", "guard-page sanitizer (mmap + PROT_NONE + canary slack, SetPanicOnFault) around the assembly operands; side-by-side bit comparison asm vs portable through verif exports; direct float64 DCT-II reference",
   "Every unit impulse of the 64/256-point kernels at 8 signed scales and all 4096 impulses of the 2-D kernel (exhaustive), edge vectors and seeded random vectors over 12 decades are run through the portable and the assembly kernel (operand flush against a PROT_NONE page, both placements, every third one only 4-byte aligned; signed zeros among the edge vectors) and compared bit for bit; the portable result is compared with a direct O(N^2) float64 DCT-II under the stated L1-relative bound; the exported dispatchers and the Alt hashes are run with the kernel selection switched both ways. A self-test shows a deliberate overrun faulting.",
   "Trusted: mmap/mprotect and Go's fault-to-panic conversion; the float64 reference DCT; only this CPU (AVX2). One listed known finding (256-point kernel, centre-mass inputs).", "3/C18"),
 "C19": ("exploration", "reference-model monitor: independent float64 2-D DCT-II of the converted luminance vs hash bits (median-threshold oracle with rounding margin); metamorphic repeats (poisoned pools, shifted origins, primary vs alternative); exhaustive size lattice for rejection",
   "Seeded images of the required size (RGBA, NRGBA with and without alpha, Gray, YCbCr 4:4:4; eight content families incl. the repository photographs) are hashed by all applicable functions; bits are compared with the coefficients of an independent DCT-II of the luminance, the luminance itself with the defining formula; hashes must be identical on repetition, after pool poisoning and at shifted origins / SubImage views. Every size of the lattice [0,70]^2 and [250,260]^2 (minus the accepted one), further sizes and nil must be rejected by all four functions, also with poisoned pools. Distance identities on random and edge hashes.",
   "Trusted: the float64 reference DCT; float32 margins derived from the kernel errors C18 measures; verif pool hooks.", "3/C19"),
 "C20": ("exploration", "guard-page sanitizer on all four operands (three planes + destination, pool buffers via the allocator hook) + per-pixel comparison with the portable formula at corresponding coordinates",
   "YCbCr images of the accepted sizes over six subsampling ratios x six origins x five stride layouts (incl. separately padded luma / chroma rows) x four contents are built with minimal-length planes, each plane and the destination flush against PROT_NONE pages; ImageToGray, AsmYCbCrToGray (aligned and misaligned destination), Rgb2GrayFast and the four hash functions run on them; every pixel must be within 2.0 of the portable formula at the corresponding coordinates, nothing may fault or touch canary slack, and each hash must satisfy the C19 oracle on the verified luminance.",
   "Trusted: mmap/mprotect, Go's fault-to-panic conversion; image.YCbCr's own YOffset/COffset as the definition of 'corresponding coordinates'.", "3/C20"),
}
NOT_APPLICABLE = []
def main():
    global NOT_APPLICABLE
    claimed=set(CHECKS)
    listed={x["property_id"] for x in NOT_APPLICABLE}
    for i in range(1,21):
        pid="C%02d"%i
        if pid not in claimed and pid not in listed:
            NOT_APPLICABLE.append({"property_id":pid,"reason":"check not built yet in this session (work in progress; the technique applies, see DESIGN.md section 3)"})
    hooks = []
    try:
        out = subprocess.run(["git","-C","/repo","log","--format=%H %s"],capture_output=True,text=True).stdout
        hooks = [l.split()[0] for l in out.splitlines() if " verif hook" in l or l.split(" ",1)[1].startswith("verif:")]
    except Exception:
        pass
    m = {"version":1,
         "setup_cmd":"./setup.sh",
         "hooks":{"guard":"verif","enable":"go build -tags verif (the harness module replaces github.com/evanoberholster/imagemeta by /repo, so every check is compiled from /repo's working tree)",
                  "baseline_off_cmd":"cd /repo && go test -vet=off -count=1 ./...","source_commits":hooks,"add_only":True},
         "engines":[{"name":"vrun","path":"harness/cmd/vrun","serves_properties":sorted(CHECKS),"kind_free_text":"Go driver+worker binary: seeded workloads, instrumented readers, reference-model oracles, child-process isolation, CPU-time watchdog, race detector, guard pages"}],
         "checks":[], "not_applicable":NOT_APPLICABLE,
         "notes":"Technique family: runtime monitoring and sanitizers. See DESIGN.md. VERIF_SEED seeds every random choice (default 1)."}
    for pid,(cat,tech,text,note,ref) in sorted(CHECKS.items()):
        m["checks"].append({"property_id":pid,"quick_cmd":f"./check {pid} --tier quick","thorough_cmd":f"./check {pid} --tier thorough",
            "evidence_file":f"evidence/{pid}.json","replay_cmd_template":f"./check {pid} --replay {{path}}","engine":"vrun",
            "level_claimed":{"category":cat,"text":text,"design_ref":ref},"level_note":note,"technique":tech})
    json.dump(m,open("/verif/MANIFEST.json","w"),indent=1)
main()
