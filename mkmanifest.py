#!/usr/bin/env python3
# Regenerates MANIFEST.json from the table below (kept next to the checks so the two stay in step).
import json, subprocess
CHECKS = {
 "C01": ("fault_enumeration", "child-process isolation + recover(): every call must return",
   "For every corpus/generated file and natural entry point, every cut point of a dense prefix and every structure boundary is crossed with five terminal reader behaviours; structure-aware malformations and random bytes are added from a seeded list. The oracle is 'the call returned' (panic caught by recover, fatal error seen as worker death). Held on the executions produced, not a proof.",
   "Trusted: Go's recover()/exit status as the crash observer; walkers that find the structural fields; sample files capped at 96 KiB.", "3/C01"),
 "C02": ("exploration", "instrumented io.ReadSeeker (byte/seek/EOF-read counters) + per-call CPU-time watchdog (rusage)",
   "Every decode entry point is run over an instrumented reader on corpus files, structure-aware malformations, loop-targeted shapes and random inputs (up to 1 MiB thorough). The oracle compares the reader's counters with the linear bound and a CPU-time budget per call; 'terminates' is thereby restated as bounded progress.",
   "Trusted: getrusage CPU accounting; the bound is judged on a full-delivery reader (short-read schedules inflate a buffered reader's request sizes and are exercised under C08 instead); reads issued at end of input deliver nothing and are bounded by count (len/8+512), not by len(p).", "3/C02"),
 "C14": ("exploration", "runtime.MemStats.TotalAlloc delta around each call in a single-goroutine worker; RLIMIT_AS back-stop",
   "Each call runs alone between two ReadMemStats; inputs are corpus files, malformations and size-field attacks aimed at every allocation site fed by a file-derived number. Refuted by a delta above 4 MiB + 16*len or an out-of-memory death of the worker.",
   "Trusted: TotalAlloc (heap only; stack growth not measured); harness allocations inside the call are within the 4 MiB constant.", "3/C14"),
}
NOT_APPLICABLE = []
def main():
    global NOT_APPLICABLE
    claimed=set(CHECKS)
    listed={x["property_id"] for x in NOT_APPLICABLE}
    for i in range(1,21):
        pid="C%02d"%i
        if pid not in claimed and pid not in listed:
            NOT_APPLICABLE.append({"property_id":pid,"reason":"check not built yet in this session (work in progress; the technique applies, see DESIGN.md section 3)"})
    hooks = []
    try:
        out = subprocess.run(["git","-C","/repo","log","--format=%H %s"],capture_output=True,text=True).stdout
        hooks = [l.split()[0] for l in out.splitlines() if " verif hook" in l or l.split(" ",1)[1].startswith("verif:")]
    except Exception:
        pass
    m = {"version":1,
         "setup_cmd":"./setup.sh",
         "hooks":{"guard":"verif","enable":"go build -tags verif (the harness module replaces github.com/evanoberholster/imagemeta by /repo, so every check is compiled from /repo's working tree)",
                  "baseline_off_cmd":"cd /repo && go test -vet=off -count=1 ./...","source_commits":hooks,"add_only":True},
         "engines":[{"name":"vrun","path":"harness/cmd/vrun","serves_properties":sorted(CHECKS),"kind_free_text":"Go driver+worker binary: seeded workloads, instrumented readers, reference-model oracles, child-process isolation, CPU-time watchdog, race detector, guard pages"}],
         "checks":[], "not_applicable":NOT_APPLICABLE,
         "notes":"Technique family: runtime monitoring and sanitizers. See DESIGN.md. VERIF_SEED seeds every random choice (default 1)."}
    for pid,(cat,tech,text,note,ref) in sorted(CHECKS.items()):
        m["checks"].append({"property_id":pid,"quick_cmd":f"./check {pid} --tier quick","thorough_cmd":f"./check {pid} --tier thorough",
            "evidence_file":f"evidence/{pid}.json","replay_cmd_template":f"./check {pid} --replay {{path}}","engine":"vrun",
            "level_claimed":{"category":cat,"text":text,"design_ref":ref},"level_note":note,"technique":tech})
    json.dump(m,open("/verif/MANIFEST.json","w"),indent=1)
main()
