#!/bin/bash
# setup_cmd: build the harness offline (also warms the Go build cache, incl. the -race variant).
set -e
cd "$(dirname "$0")"
export GOFLAGS=-mod=mod GOPROXY=off GOSUMDB=off GOTOOLCHAIN=local CGO_ENABLED=1
mkdir -p bin evidence replays
cp -f /repo/go.sum harness/go.sum
( cd harness && go build -tags verif -o ../bin/vrun ./cmd/vrun )
( cd harness && go build -race -tags verif -o ../bin/vrun-race ./cmd/vrun )
echo "setup ok"
