#!/bin/bash
# tools/matrix.sh [seed-ids...] — re-runs every seeded change against the check(s) recorded as
# catching it (quick tier) on the current /repo HEAD and /verif tree; prints one line per seed.
cd "$(dirname "$0")/.."
IDS=("$@"); [ ${#IDS[@]} -eq 0 ] && IDS=($(ls seeded | grep -v '\.md$'))
for id in "${IDS[@]}"; do
  d=seeded/$id
  if [ "$(jq -r '.retired // empty' $d/meta.json)" != "" ]; then echo "$id: retired (see meta.json)"; continue; fi
  if [ "$(jq -r '.detection.caught_by|join(",")' $d/meta.json)" = "none" ]; then echo "$id: recorded as not caught (see meta.json)"; continue; fi
  T=/tmp/mx-$id-$$; rm -rf $T; mkdir -p $T; cp $d/patch.diff $d/demo_test.go $d/meta.json $T/
  # evalmut reads property/demo fields from meta.json of the round format
  python3 - "$T/meta.json" <<'PY'
import json,sys
m=json.load(open(sys.argv[1]))
json.dump({"property":m["property"],"mutation":m["seed_id"],"summary":m["summary"],"needs":m["needs_to_manifest"],"demo_dest":m["demo_dest"],"demo_run":m["demo_run"]},open(sys.argv[1],"w"))
PY
  checks=$(python3 -c "import json;print(' '.join(json.load(open('$d/meta.json'))['detection']['caught_by']))")
  out=$(SKIP_VALIDATE=${SKIP_VALIDATE:-1} ./tools/evalmut.sh $T $checks 2>&1 | grep -v conda)
  echo "$id: $(echo "$out" | grep -E '^DETECT|RESULT|VALIDATE' | sed -E 's/^DETECT [^ ]+ //; s/first:.*//' | tr '\n' ';')"
  rm -rf $T
done
