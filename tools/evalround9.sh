#!/bin/bash
# one-off: final evaluation of the round-9 deliveries against the checks recorded for them
cd "$(dirname "$0")/.."
while read c x id checks rest; do
  d=/tmp/mut9/$c/$x; rm -f $d/detect_*.log
  ./tools/evalmut.sh $d ${checks//,/ } 2>&1 | grep -aE '^(VALIDATE|DETECT|RESULT)' | sed "s|/tmp/mut9/||g" | cut -c1-200
done < /tmp/r9list.txt
