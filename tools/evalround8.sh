#!/bin/bash
# one-off: final evaluation of the round-8 deliveries against the checks recorded for them
cd "$(dirname "$0")/.."
R=/tmp/mut8
while read c x checks; do
  d=$R/$c/$x; rm -f $d/detect_*.log
  ./tools/evalmut.sh $d $checks 2>&1 | grep -E '^(VALIDATE|DETECT|RESULT)' | sed "s|$R/||g" | cut -c1-260
done <<'LIST'
C01 a C01
C01 b C01
C02 a C02
C02 b C02
C03 a C03
C03 b C08
C04 a C04
C04 b C04
C05 a C05
C05 b C05
C06 a C06
C06 b C08
C07 a C07 C03
C07 b C07
C08 a C08
C08 b C08
C09 a C09
C09 b C06
C10 a C10
C10 b C10
C11 a C11
C11 b C08
C12 a C12
C12 b C12
C13 a C13
C13 b C13
C14 a C14
C14 b C14
C15 a C15
C15 b C15
C16 a C16
C16 b C16
C17 a C17
C17 b C17
C18 a C18
C18 b C18
C19 a C19
C19 b C19
C20 a C20
C20 b C20
LIST
