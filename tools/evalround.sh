#!/bin/bash
# tools/evalround.sh <round-dir> <Cxx>...  — runs evalmut.sh over <round-dir>/<Cxx>/{a,b} and prints the
# VALIDATE/DETECT/RESULT lines (development aid).
cd "$(dirname "$0")/.."
R=$1; shift
for c in "$@"; do for x in a b; do
  d=$R/$c/$x; [ -f $d/patch.diff ] || { echo "$c/$x: no patch"; continue; }
  ./tools/evalmut.sh $d 2>&1 | grep -E '^(VALIDATE|DETECT|RESULT)' | sed "s|$R/||g"
done; done
