#!/bin/bash
# tools/evalmut.sh <mutation-dir> [check-ids...]   (development aid, not a registered check)
# 1. validates a seeded change in a scratch worktree of /repo (demo passes without it, the
#    repository suite passes with it, the demo fails with it);
# 2. applies it to /repo, runs the named checks (default: the property in meta.json) at the quick
#    tier, and undoes it straight afterwards. Evidence and replays of /verif are preserved.
set -u
D=$(readlink -f "$1"); shift
export GOFLAGS=-mod=mod GOPROXY=off GOSUMDB=off GOTOOLCHAIN=local
PROP=$(jq -r .property "$D/meta.json")
DEST=$(jq -r .demo_dest "$D/meta.json")
RUN=$(jq -r .demo_run "$D/meta.json")
CHECKS=("$@"); [ ${#CHECKS[@]} -eq 0 ] && CHECKS=("$PROP")
TIER=${EVAL_TIER:-quick}
W=/tmp/val-$$
if [ "${SKIP_VALIDATE:-0}" != 1 ]; then
  git -C /repo worktree add -q --detach "$W" HEAD || exit 2
  trap 'git -C /repo worktree remove --force "$W" 2>/dev/null' EXIT
  cp "$D/demo_test.go" "$W/$DEST"
  ( cd "$W" && eval "$RUN" ) >"$D/val_pristine.log" 2>&1; r1=$?
  ( cd "$W" && git apply "$D/patch.diff" ) || { echo "RESULT $D patch-does-not-apply"; exit 2; }
  ( cd "$W" && eval "$RUN" ) >"$D/val_mutant.log" 2>&1; r3=$?
  rm -f "$W/$DEST"
  ( cd "$W" && go build ./... && go test -vet=off -count=1 ./... ) >"$D/val_suite.log" 2>&1; r2=$?
  git -C /repo worktree remove --force "$W"; trap - EXIT
  echo "VALIDATE $D demo_pristine_rc=$r1 suite_with_mutant_rc=$r2 demo_mutant_rc=$r3"
  if [ $r1 -ne 0 ] || [ $r2 -ne 0 ] || [ $r3 -eq 0 ]; then echo "RESULT $D INVALID"; exit 3; fi
fi
cd /verif
if [ -n "$(git -C /repo status --porcelain)" ]; then echo "/repo is dirty; refusing"; exit 2; fi
BK=/tmp/evbak-$$; mkdir -p $BK; cp -a evidence $BK/; cp -a replays $BK/ 2>/dev/null
git -C /repo apply "$D/patch.diff" || { echo "cannot apply to /repo"; exit 2; }
for c in "${CHECKS[@]}"; do
  s=$(date +%s)
  timeout 3600 ./check "$c" --tier "$TIER" >"$D/detect_$c.log" 2>&1; rc=$?
  e=$(date +%s)
  echo "DETECT $D check=$c tier=$TIER rc=$rc $((e-s))s $(grep -c '^VIOLATION' "$D/detect_$c.log") violation lines; first: $(grep -A1 '^VIOLATION' "$D/detect_$c.log" | sed -n 2p | cut -c1-220)"
done
git -C /repo checkout -- .
rm -rf evidence replays; cp -a $BK/evidence .; [ -d $BK/replays ] && cp -a $BK/replays .; rm -rf $BK
