#!/bin/bash
# tools/evalmut.sh <mutation-dir> [check-ids...]   (development aid, not a registered check)
# Validates a seeded change in a scratch worktree of /repo (demo passes without it, the repository
# suite passes with it, the demo fails with it), then runs the named checks (default: the property
# in meta.json) against that worktree (VERIF_REPO/VERIF_OUT), and removes the worktree.
# With IN_REPO=1 the change is instead applied to /repo itself and undone straight afterwards.
set -u
D=$(readlink -f "$1"); shift
VDIR=$(cd "$(dirname "$(readlink -f "$0")")/.." && pwd)
export GOFLAGS=-mod=mod GOPROXY=off GOSUMDB=off GOTOOLCHAIN=local
PROP=$(jq -r .property "$D/meta.json")
DEST=$(jq -r .demo_dest "$D/meta.json")
RUN=$(jq -r .demo_run "$D/meta.json")
CHECKS=("$@"); [ ${#CHECKS[@]} -eq 0 ] && CHECKS=("$PROP")
TIER=${EVAL_TIER:-quick}
W=/tmp/val-$$; O=/tmp/valout-$$
git -C /repo worktree add -q --detach "$W" HEAD || exit 2
trap 'git -C /repo worktree remove --force "$W" 2>/dev/null; rm -rf "$O"' EXIT
if [ "${SKIP_VALIDATE:-0}" != 1 ]; then
  mkdir -p "$W/$(dirname "$DEST")"; cp "$D/demo_test.go" "$W/$DEST"
  ( cd "$W" && eval "$RUN" ) >"$D/val_pristine.log" 2>&1; r1=$?
  ( cd "$W" && git apply "$D/patch.diff" ) || { echo "RESULT $D patch-does-not-apply"; exit 2; }
  ( cd "$W" && eval "$RUN" ) >"$D/val_mutant.log" 2>&1; r3=$?
  rm -f "$W/$DEST"
  ( cd "$W" && go build ./... && go test -vet=off -count=1 ./... ) >"$D/val_suite.log" 2>&1; r2=$?
  echo "VALIDATE $D demo_pristine_rc=$r1 suite_with_mutant_rc=$r2 demo_mutant_rc=$r3"
  if [ $r1 -ne 0 ] || [ $r2 -ne 0 ] || [ $r3 -eq 0 ]; then echo "RESULT $D INVALID"; exit 3; fi
else
  ( cd "$W" && git apply "$D/patch.diff" ) || { echo "RESULT $D patch-does-not-apply"; exit 2; }
fi
cd "$VDIR"
for c in "${CHECKS[@]}"; do
  s=$(date +%s)
  if [ "${IN_REPO:-0}" = 1 ]; then
    [ -n "$(git -C /repo status --porcelain)" ] && { echo "/repo is dirty; refusing"; exit 2; }
    git -C /repo apply "$D/patch.diff" || exit 2
    VERIF_OUT=$O timeout 3600 ./check "$c" --tier "$TIER" >"$D/detect_$c.log" 2>&1; rc=$?
    git -C /repo checkout -- .
  else
    VERIF_REPO=$W VERIF_OUT=$O timeout 3600 ./check "$c" --tier "$TIER" >"$D/detect_$c.log" 2>&1; rc=$?
  fi
  e=$(date +%s)
  echo "DETECT $D check=$c tier=$TIER rc=$rc $((e-s))s viol_lines=$(grep -c '^VIOLATION' "$D/detect_$c.log") first: $(grep -A1 '^VIOLATION' "$D/detect_$c.log" | sed -n 2p | cut -c1-240)"
done
