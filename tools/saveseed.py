#!/usr/bin/env python3
# tools/saveseed.py <mutdir> <seed-id> <caught_by> <initially_missed:0|1> [note]
# Copies a confirmed seeded change into /verif/seeded/<seed-id>/ with its meta.json.
import json, os, shutil, sys, re
d, sid, caught, missed = sys.argv[1], sys.argv[2], sys.argv[3], sys.argv[4] == '1'
note = sys.argv[5] if len(sys.argv) > 5 else ""
m = json.load(open(os.path.join(d, 'meta.json')))
out = os.path.join('/verif/seeded', sid)
os.makedirs(out, exist_ok=True)
shutil.copy(os.path.join(d, 'patch.diff'), os.path.join(out, 'patch.diff'))
shutil.copy(os.path.join(d, 'demo_test.go'), os.path.join(out, 'demo_test.go'))
det = {}
for f in os.listdir(d):
    mm = re.match(r'detect_(C\d\d)\.log$', f)
    if mm:
        txt = open(os.path.join(d, f), errors='replace').read()
        lines = [l for l in txt.splitlines() if l.startswith('VIOLATION') or l.startswith('  key=')]
        det[mm.group(1)] = {"violation_lines": sum(1 for l in lines if l.startswith('VIOLATION')),
                            "first": [l.strip()[:300] for l in lines[:4]]}
meta = {
  "seed_id": sid,
  "property": m["property"],
  "summary": m["summary"],
  "needs_to_manifest": m["needs"],
  "origin": "independent sub-agent given only the property text and a scratch worktree of /repo",
  "demo_dest": m["demo_dest"], "demo_run": m["demo_run"],
  "confirmed": {
     "demo_passes_on_pristine_tree": True, "repository_suite_passes_with_change": True, "demo_fails_with_change": True,
     "how": "tools/evalmut.sh: fresh scratch worktree of /repo HEAD; copy demo, run demo_run (pass); git apply patch.diff; run demo_run (fail); remove demo; go build ./... && go test -vet=off -count=1 ./... (pass); worktree removed"
  },
  "detection": {"caught_by": caught.split(','), "tier": "quick", "initially_missed": missed, "note": note, "observed": det},
}
json.dump(meta, open(os.path.join(out, 'meta.json'), 'w'), indent=1)
print("saved", out)
