#!/bin/bash
# tools/pmatrix.sh <parallel> [seed-ids...] — tools/matrix.sh over all (or the named) seeds, <parallel>
# seeds at a time (each evaluation has its own scratch worktree and output directory).
cd "$(dirname "$0")/.."
P=$1; shift
IDS=("$@"); [ ${#IDS[@]} -eq 0 ] && IDS=($(ls seeded | grep -v '\.md$'))
printf '%s\n' "${IDS[@]}" | xargs -P "$P" -n 1 ./tools/matrix.sh 2>&1 | grep -v conda
