#!/bin/bash
# tools/rebaseseeds.sh — after a fix commit in /repo, re-creates the patch.diff of every seeded
# change that no longer applies to HEAD (three-way apply in a scratch worktree). Prints what it did.
cd "$(dirname "$0")/.."
W=/tmp/rebase-$$
git -C /repo worktree add -q --detach $W HEAD || exit 2
trap 'git -C /repo worktree remove --force $W 2>/dev/null' EXIT
for d in seeded/C*; do
  id=$(basename $d)
  if git -C $W apply --check $PWD/$d/patch.diff 2>/dev/null; then continue; fi
  if git -C $W apply --3way $PWD/$d/patch.diff >/dev/null 2>&1 && [ -z "$(git -C $W diff --name-only --diff-filter=U)" ]; then
    git -C $W reset -q
    git -C $W add -N . >/dev/null 2>&1
    git -C $W diff > $d/patch.diff.new
    if [ -s $d/patch.diff.new ]; then mv $d/patch.diff.new $d/patch.diff; echo "$id: rebased"; else rm -f $d/patch.diff.new; echo "$id: EMPTY after rebase"; fi
  else
    echo "$id: CONFLICT (manual)"
  fi
  git -C $W reset -q --hard; git -C $W clean -fdq
done
