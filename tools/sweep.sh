#!/bin/bash
# tools/sweep.sh <tier> <seed-from> <seed-to> [props...]  — silence sweep on the unchanged tree.
# Prints one line per (seed, property); exits 1 if any run was not silent.
cd "$(dirname "$0")/.."
TIER=$1; A=$2; B=$3; shift 3
PROPS=("$@"); [ ${#PROPS[@]} -eq 0 ] && PROPS=(C01 C02 C03 C04 C05 C06 C07 C08 C09 C10 C11 C12 C13 C14 C15 C16 C17 C18 C19 C20)
bad=0
for s in $(seq $A $B); do
  for p in "${PROPS[@]}"; do
    out=$(VERIF_SEED=$s ./check $p --tier $TIER 2>&1); rc=$?
    line=$(echo "$out" | grep "^$p tier" | head -1)
    echo "seed=$s rc=$rc $line"
    if [ $rc -ne 0 ]; then bad=1; echo "$out" | grep -A1 "^VIOLATION\|^BROKEN\|^INCONCL" | head -12; fi
  done
done
exit $bad
