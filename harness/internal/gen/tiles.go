package gen

import (
	"bytes"
	"fmt"
	"strings"

	"verif/harness/internal/core"
)

// tileTypes are the box types the ISOBMFF readers know about, plus unknown ones.
var tileTypes = []string{"hdlr", "pitm", "iinf", "iref", "iprp", "idat", "iloc", "uuid", "free", "infe", "ipco", "ipma",
	"dinf", "moov", "meta", "mdat", "ftyp", "CMT1", "CMT2", "CMT3", "CMT4", "PRVW", "CNCV", "THMB", "CTBO", "trak", "xxxx", "colr", "ispe", "irot"}

// TileShape is a large input made of one tiny structural unit repeated until the input is about
// target bytes long, inside every context that loops over such units: what a decode allocates
// (or works) per unit then adds up to something measurable against the size of the input.
func TileShape(r *core.Rng, target int) ([]byte, string) {
	rep := func(unit []byte) []byte {
		n := target / len(unit)
		if n < 1 {
			n = 1
		}
		return bytes.Repeat(unit, n)
	}
	payload := func() []byte {
		n := r.Pick(0, 0, 4, 8, 12, 16, r.Intn(25))
		p := make([]byte, n)
		if r.Bool() {
			copy(p, r.Bytes(n))
		}
		if n >= 4 && r.Bool() {
			copy(p, []byte{byte(r.Intn(4)), 0, 0, byte(r.Intn(2))}) // version / flags of a FullBox
		}
		return p
	}
	switch k := r.Intn(10); {
	case k < 5: // ISOBMFF
		typ := tileTypes[r.Intn(len(tileTypes))]
		unit := rawBox(typ, payload())
		if r.Chance(1, 4) {
			unit = append(unit, rawBox(tileTypes[r.Intn(len(tileTypes))], payload())...)
		}
		if typ == "uuid" && r.Bool() {
			id := [][]byte{UUIDCanonMeta, UUIDXPacket, UUIDPreview}[r.Intn(3)]
			unit = rawBox("uuid", append(append([]byte{}, id...), payload()...))
		}
		if r.Chance(1, 6) {
			// a complete CR3 preview box whose PRVW header announces far more than it holds
			hdr := make([]byte, 16)
			copy(hdr[4:], be16(1))
			copy(hdr[6:], be16(r.Pick(160, 1620, 6000)))
			copy(hdr[8:], be16(r.Pick(120, 1080, 4000)))
			copy(hdr[10:], be16(1))
			copy(hdr[12:], be32(r.Pick(1000, 65536, 900<<10, 1<<20, 1<<20+1, 16<<20, 0x7fffffff)))
			prvw := rawBox("PRVW", append(hdr, r.Bytes(r.Pick(0, 2, 16))...))
			unit = rawBox("uuid", append(append(append([]byte{}, UUIDPreview...), 0, 0, 0, 0, 0, 0, 0, 1), prvw...))
		}
		kids := rep(unit)
		heif := Ftyp(r.PickStr("avif", "heic"), 0, "mif1", "heic", "avif").Serialise(nil)
		cr3 := Ftyp("crx ", 1, "crx ", "isom").Serialise(nil)
		var out []byte
		var ctx string
		switch r.Intn(9) {
		case 0:
			ctx, out = "heif/meta", append(heif, fullBox("meta", 0, 0, kids)...)
		case 1:
			ctx, out = "heif/meta/iinf", append(heif, fullBox("meta", 0, 0, fullBox("iinf", 0, 0, append(be16(0xFFFF), kids...)))...)
		case 2:
			ctx, out = "heif/meta/iprp/ipco", append(heif, fullBox("meta", 0, 0, rawBox("iprp", rawBox("ipco", kids)))...)
		case 3:
			ctx, out = "heif/meta/iref", append(heif, fullBox("meta", 0, 0, fullBox("iref", 0, 0, kids))...)
		case 4:
			ctx, out = "heif/top", append(heif, kids...)
		case 5:
			ctx, out = "cr3/moov", append(cr3, rawBox("moov", kids)...)
		case 6:
			ctx, out = "cr3/moov/canon", append(cr3, rawBox("moov", rawBox("uuid", append(append([]byte{}, UUIDCanonMeta...), kids...)))...)
		case 7:
			ctx, out = "cr3/top", append(cr3, kids...)
		default:
			ctx, out = "cr3/preview", append(cr3, rawBox("uuid", append(append(append([]byte{}, UUIDPreview...), 0, 0, 0, 0, 0, 0, 0, 1), kids...))...)
		}
		return out, fmt.Sprintf("tiles %s unit=%x n=%d len=%d", ctx, unit, len(kids)/len(unit), len(out))
	case k < 7: // JPEG segments
		var unit []byte
		seg := func(marker byte, p []byte) []byte {
			return append([]byte{0xFF, marker, byte((len(p) + 2) >> 8), byte(len(p) + 2)}, p...)
		}
		tiny := [][]byte{[]byte("II*\x00\x08\x00\x00\x00"), []byte("MM\x00*\x00\x00\x00\x08"), []byte("II*\x00\x08\x00\x00\x00\x01\x00\x0f\x01\x02\x00\x09\x00\x00\x00\x00\x00\x00\x00"),
			[]byte("MM\x00*"), []byte("II*\x00\xff\xff\xff\xff"), nil}
		switch r.Intn(7) {
		case 6:
			// an Exif block whose root directory names one long text value many times over (writers
			// store equal strings once; every entry of the tag may point at it)
			n, vl := r.Pick(2, 20, 80, 84, 128), r.Pick(200, 1500, 4000, 4096)
			t := []byte("II*\x00\x08\x00\x00\x00")
			t = append(t, byte(n), byte(n>>8))
			tg := r.Pick(0x013b, 0x8298, 0x0131, 0x010e, 0x010f, 0x0110)
			val := 8 + 2 + 12*n + 4
			for i := 0; i < n; i++ {
				off := val
				if r.Chance(1, 10) {
					off = val + i%3
				}
				t = append(t, byte(tg), byte(tg>>8), 2, 0, byte(vl), byte(vl>>8), 0, 0, byte(off), byte(off>>8), byte(off>>16), 0)
			}
			t = append(t, 0, 0, 0, 0)
			t = append(t, bytes.Repeat([]byte("v"), vl+4)...)
			unit = seg(0xE1, append([]byte(ExifPrefix), t...))
		case 0:
			unit = seg(0xE1, append([]byte(ExifPrefix), tiny[r.Intn(len(tiny))]...))
		case 1:
			x := [][]byte{[]byte("<x:xmpmeta>"), []byte("<x:xmpmeta xmlns:x='adobe:ns:meta/'><rdf:RDF><a"), []byte("<?xpacket begin='' id=''?>"), []byte("<x:xmpmeta><rdf:RDF></rdf:RDF></x:xmpmeta>"), nil}
			unit = seg(0xE1, append([]byte(XMPPrefix), x[r.Intn(len(x))]...))
		case 2:
			unit = seg(0xE1, r.Bytes(r.Intn(12)))
		case 3:
			unit = seg(byte(0xE0+r.Intn(16)), payload())
		case 4:
			unit = seg(0xC0, []byte{8, byte(r.Intn(256)), byte(r.Intn(256)), byte(r.Intn(256)), byte(r.Intn(256)), 3})
		default:
			unit = seg(byte(r.Pick(0xFE, 0xDB)), payload())
		}
		out := append([]byte{0xFF, 0xD8}, rep(unit)...)
		if r.Bool() {
			out = append(out, 0xFF, 0xD9)
		}
		return out, fmt.Sprintf("tiles jpeg unit=%x n=%d len=%d", clip(unit, 48), (len(out)-2)/len(unit), len(out))
	case k < 8: // PNG chunks
		chunk := func(typ string, p []byte) []byte {
			return append(append(append(be32(len(p)), typ...), p...), 0, 0, 0, 0)
		}
		typ := []string{"eXIf", "tEXt", "iTXt", "zTXt", "IDAT", "IHDR", "abcd", "iCCP"}[r.Intn(8)]
		var p []byte
		switch r.Intn(4) {
		case 0:
			p = []byte("II*\x00\x08\x00\x00\x00")
		case 1:
			p = []byte("XML:com.adobe.xmp\x00\x00\x00\x00\x00<x:xmpmeta>")
		case 2:
			p = payload()
		}
		unit := chunk(typ, p)
		out := append([]byte("\x89PNG\r\n\x1a\n"), chunk("IHDR", make([]byte, 13))...)
		out = append(out, rep(unit)...)
		return out, fmt.Sprintf("tiles png unit=%x n=%d len=%d", clip(unit, 48), (len(out)-33)/len(unit), len(out))
	case k < 9: // TIFF: one directory of 65535 identical entries, or a chain of tiny directories
		le := r.Bool()
		h := []byte("MM\x00*\x00\x00\x00\x08")
		if le {
			h = []byte("II*\x00\x08\x00\x00\x00")
		}
		p16 := func(b []byte, v int) []byte {
			if le {
				return append(b, byte(v), byte(v>>8))
			}
			return append(b, byte(v>>8), byte(v))
		}
		p32 := func(b []byte, v int) []byte {
			if le {
				return append(b, byte(v), byte(v>>8), byte(v>>16), byte(v>>24))
			}
			return append(b, byte(v>>24), byte(v>>16), byte(v>>8), byte(v))
		}
		if r.Bool() {
			n := target / 12
			if n > 65535 {
				n = 65535
			}
			out := p16(append([]byte(nil), h...), n)
			var e []byte
			e = p16(e, r.Pick(0x010f, 0x0110, 0x8769, 0x8825, 0x927c, 0x014a, 0x0131, 0x9003, 0x829a, r.Intn(65536)))
			e = p16(e, r.Pick(1, 2, 3, 4, 5, 7, 10, 0, 13))
			e = p32(e, r.Pick(0, 1, 2, 4, 5, 64, 4096, 0x7fffffff))
			e = p32(e, r.Pick(0, 8, 10, len(out), 0x7fffffff))
			out = append(out, bytes.Repeat(e, n)...)
			out = p32(out, 0)
			out = append(out, make([]byte, 64)...)
			return out, fmt.Sprintf("tiles tiff entries entry=%x n=%d len=%d", e, n, len(out))
		}
		if r.Chance(1, 2) {
			// fan-out: K pointer entries in the root directory lead to K sub-directories laid out
			// back to back; sub-directory k holds min(k, cap) copies of one string tag (as many as
			// the reader's pending table has free by then) whose long values start right behind it,
			// one byte apart. Every value is attempted.
			K, capN := r.Pick(8, 84, 84, 85, 128), r.Pick(16, 84, 128)
			ptr := r.Pick(0x8769, 0x8769, 0x8769, 0x8825)
			tg := r.Pick(0xa434, 0xa433, 0xa431, 0xa435, 0xa430, 0xa434, 0x9003, 0x9290)
			if ptr == 0x8825 {
				tg = r.Pick(0x001d, 0x0002, 0x001b)
			}
			ty := r.Pick(2, 2, 2, 2, 7)
			cnt := r.Pick(1025, 1537, 4000, 4096, 4097, 5000, 60000)
			step := r.Pick(1, 0) // 0: every entry of a directory names the same value
			nOf := func(k int) int {
				if k < capN {
					return k
				}
				return capN
			}
			E := make([]int, K+1)
			E[0] = 8 + 2 + 12*K + 4
			for k := 0; k < K; k++ {
				E[k+1] = E[k] + 2 + 12*nOf(k) + 4 + nOf(k) + 2
			}
			out := p16(append([]byte(nil), h...), K)
			for k := 0; k < K; k++ {
				out = p32(p32(p16(p16(out, ptr), 4), 1), E[k])
			}
			out = p32(out, 0)
			for k := 0; k < K; k++ {
				n := nOf(k)
				out = p16(out, n)
				v := E[k] + 2 + 12*n + 4
				for j := 0; j < n; j++ {
					out = p32(p32(p16(p16(out, tg), ty), cnt), v+j*step)
				}
				out = p32(out, 0)
				out = append(out, bytes.Repeat([]byte("A"), n+2)...)
			}
			out = append(out, bytes.Repeat([]byte("A"), r.Pick(64, 2000, 8192))...)
			return out, fmt.Sprintf("tiles tiff fanout K=%d cap=%d ptr=%#x tag=%#x type=%d count=%d step=%d len=%d", K, capN, ptr, tg, ty, cnt, step, len(out))
		}
		// chain: each directory holds one entry and points at the next
		out := append([]byte(nil), h...)
		for len(out)+18 < target && len(out) < 1<<22 {
			out = p16(out, 1)
			out = p16(out, r.Pick(0x010f, 0x8769, 0x014a, 0x0112))
			out = p16(out, r.Pick(2, 3, 4))
			out = p32(out, 1)
			out = p32(out, len(out)+8)
			out = p32(out, len(out)+4)
		}
		out = append(out, make([]byte, 32)...)
		return out, fmt.Sprintf("tiles tiff chain len=%d", len(out))
	default: // XMP
		units := []string{"<rdf:li>a</rdf:li>", "<dc:subject><rdf:Bag><rdf:li>k</rdf:li></rdf:Bag></dc:subject>", "<a:b c:d='e'/>", "<rdf:Description xmp:Rating='3'/>",
			"<xmp:Rating>5</xmp:Rating>", "<dc:title><rdf:Alt><rdf:li xml:lang='x'>t</rdf:li></rdf:Alt></dc:title>", "<tiff:Make>C</tiff:Make>", " x='y'", "<a>", "</a>", "<a/>",
			"<xmpMM:History><rdf:Seq><rdf:li stEvt:action='s'/></rdf:Seq></xmpMM:History>"}
		u := units[r.Intn(len(units))]
		if r.Chance(1, 3) {
			// a supported property with a long value of one repeated token (separators of the typed
			// value parsers: colons, slashes, dashes, digits, blanks)
			prop := r.PickStr("xmpMM:DocumentID", "xmpMM:InstanceID", "xmpMM:OriginalDocumentID", "xmp:CreateDate", "exif:FNumber", "exif:ExposureTime", "aux:Lens", "tiff:Make", "xmp:Rating", "dc:format", "exif:DateTimeOriginal", "aux:LensInfo")
			val := strings.Repeat(r.PickStr("a:", ":", "1/", "-", "0", "9 ", "uuid:", "T", "+", "ab"), r.Pick(50, 300, 600, 1100)/2)
			if len(val) > 1200 {
				val = val[:1200]
			}
			u = "<" + prop + ">" + val + "</" + prop + ">"
			if r.Bool() {
				u = "<rdf:Description " + prop + "='" + val + "'/>"
			}
		}
		head := "<x:xmpmeta xmlns:x='adobe:ns:meta/'><rdf:RDF xmlns:rdf='http://www.w3.org/1999/02/22-rdf-syntax-ns#'><rdf:Description rdf:about='' xmlns:dc='http://purl.org/dc/elements/1.1/' xmlns:xmp='http://ns.adobe.com/xap/1.0/' xmlns:tiff='http://ns.adobe.com/tiff/1.0/' xmlns:xmpMM='http://ns.adobe.com/xap/1.0/mm/' xmlns:stEvt='http://ns.adobe.com/xap/1.0/sType/ResourceEvent#'"
		if u[0] == '<' {
			head += ">"
			if r.Chance(1, 4) {
				// the units are the items of an array under a typed property (date, identifier,
				// number, text): every item goes through that property's value parser
				prop := r.PickStr("xmp:CreateDate", "xmp:ModifyDate", "exif:DateTimeOriginal", "xmpMM:InstanceID", "xmpMM:DocumentID", "exif:FNumber", "xmp:Rating", "dc:subject", "dc:creator", "tiff:Make")
				head += "<" + prop + "><rdf:" + r.PickStr("Seq", "Bag", "Alt") + ">"
				u = r.PickStr("<a:b>x", "<:>x", "<:>x", "<rdf:li>x</rdf:li>", "<rdf:li>2020</rdf:li>", "<rdf:li/>", "<rdf:li>a:b:c</rdf:li>", "<rdf:li>2020-13-45T99:99:99</rdf:li>", "<rdf:li>1/0</rdf:li>")
			}
		}
		out := append([]byte(head), rep([]byte(u))...)
		if u[0] != '<' {
			out = append(out, '>')
		}
		out = append(out, "</rdf:Description></rdf:RDF></x:xmpmeta>"...)
		return out, fmt.Sprintf("tiles xmp unit=%q n=%d len=%d in=%q", u, (len(out)-len(head))/len(u), len(out), head[len(head)-40:])
	}
}

func clip(b []byte, n int) []byte {
	if len(b) > n {
		return b[:n]
	}
	return b
}

// ZoneFloodJPEG is a JPEG whose Exif blocks hold, in all, about 2000 OffsetTime* entries with
// pairwise different zone strings; no string is shared between files of different index. The
// library keeps one zone object per offset for the life of the process.
func ZoneFloodJPEG(index int) []byte {
	var segs []Seg
	v := index * 2000
	for b := 0; b < 25; b++ {
		// IFD0: one pointer to the Exif directory; Exif directory: 80 entries, values behind it
		t := []byte("II*\x00\x08\x00\x00\x00")
		le16 := func(x int) { t = append(t, byte(x), byte(x>>8)) }
		le32 := func(x int) { t = append(t, byte(x), byte(x>>8), byte(x>>16), byte(x>>24)) }
		le16(1)
		le16(0x8769)
		le16(4)
		le32(1)
		le32(26)
		le32(0)
		n := 80
		le16(n)
		val := 26 + 2 + 12*n + 4
		for i := 0; i < n; i++ {
			le16([]int{0x9010, 0x9011, 0x9012}[i%3])
			le16(2)
			le32(7)
			le32(val + 8*i)
		}
		le32(0)
		for i := 0; i < n; i++ {
			// "+hh:mm" whose "digits" are any bytes >= '0' (the library takes them all): offset
			// number u becomes hours u/60 (up to 2277, two digits of up to 207 each) and minutes u%60
			k := v
			v++
			u := k / 2
			h, m := u/60, u%60
			d1 := h / 10
			if d1 > 207 {
				d1 = 207
			}
			d2 := h - 10*d1
			z := []byte{'+', byte('0' + d1), byte('0' + d2), ':', byte('0' + m/10), byte('0' + m%10), 0, 0}
			if k%2 == 1 {
				z[0] = '-'
			}
			t = append(t, z...)
		}
		segs = append(segs, ExifSeg(t))
	}
	return BuildJPEG(core.NewRng(uint64(index), 0x20e), segs, 64).Bytes
}
