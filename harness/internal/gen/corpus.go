package gen

import (
	"os"
	"path/filepath"
	"sort"
	"strings"

	"verif/harness/internal/core"
)

// File is one corpus member.
type File struct {
	Name   string
	Data   []byte
	Fields []Field
	Kind   string // "jpeg","tiff","png","cr3","heif","avif","xmp","other"
}

// RepoDir is where the library's sample files live.
func RepoDir() string {
	if d := os.Getenv("VERIF_REPO"); d != "" {
		return d
	}
	return "/repo"
}

// KindOf classifies bytes by their leading signature.
func KindOf(b []byte) string { return kindOf(b) }

func kindOf(b []byte) string {
	switch {
	case len(b) >= 2 && b[0] == 0xFF && b[1] == 0xD8:
		return "jpeg"
	case len(b) >= 4 && string(b[:4]) == "\x89PNG":
		return "png"
	case len(b) >= 12 && string(b[4:8]) == "ftyp":
		switch string(b[8:12]) {
		case "crx ":
			return "cr3"
		case "avif":
			return "avif"
		}
		return "heif"
	case len(b) >= 4 && (string(b[:4]) == "II*\x00" || string(b[:4]) == "MM\x00*"):
		return "tiff"
	case strings.Contains(string(b[:min(len(b), 512)]), "<x:xmpmeta"):
		return "xmp"
	}
	return "other"
}

func min(a, b int) int {
	if a < b {
		return a
	}
	return b
}

// LoadSamples reads the repository's sample files (each capped at cap bytes: metadata lives
// at the front; the cap keeps per-call cost flat).
func LoadSamples(capBytes int) []File {
	var out []File
	for _, dir := range []string{"testImages", "assets", "isobmff/samples", "xmp/test"} {
		ents, err := os.ReadDir(filepath.Join(RepoDir(), dir))
		if err != nil {
			continue
		}
		for _, e := range ents {
			if e.IsDir() || strings.HasSuffix(e.Name(), ".json") {
				continue
			}
			if dir == "assets" && (e.Name() == "JPEG.jpg" || e.Name() == "NoExif.jpg") {
				continue // duplicates of testImages
			}
			b, err := os.ReadFile(filepath.Join(RepoDir(), dir, e.Name()))
			if err != nil {
				continue
			}
			if len(b) > capBytes {
				b = b[:capBytes]
			}
			out = append(out, File{Name: dir + "/" + e.Name(), Data: b, Kind: kindOf(b)})
		}
	}
	sort.Slice(out, func(i, j int) bool { return out[i].Name < out[j].Name })
	for i := range out {
		out[i].Fields = WalkAny(out[i].Data)
	}
	return out
}

// SynthPayload builds a well-formed TIFF payload from a random record.
func SynthPayload(r *core.Rng, big bool, foreign int) ([]byte, *ExifRec, Built) {
	rec := GenExifRec(r, RecOpts{LongStrings: r.Chance(1, 3)})
	if foreign > 0 {
		AddForeign(r, rec.IFD0, r.Intn(foreign+1), r.Chance(1, 4), true)
		AddForeign(r, rec.Exif, r.Intn(foreign+1), r.Chance(1, 4), true)
		AddForeign(r, rec.GPS, r.Intn(foreign/2+1), false, true)
	}
	root := rec.Assemble(true)
	bt := BuildTIFF(root, Layout{Big: big, FirstOff: 8, MaxPad: r.Pick(0, 0, 2, 9), Order: r.Intn(3), R: r})
	return bt.Bytes, rec, bt
}

// dedupDir keeps the last entry of every tag id.
func dedupDir(d *Dir) {
	last := map[uint16]int{}
	for i, e := range d.Entries {
		last[e.Tag] = i
	}
	keep := d.Entries[:0]
	for i, e := range d.Entries {
		if last[e.Tag] == i {
			keep = append(keep, e)
		}
	}
	d.Entries = keep
}

// SynthFiles generates one well-formed file of every container kind from the seed.
func SynthFiles(seed uint64, n int) []File {
	var out []File
	for i := 0; i < n; i++ {
		r := core.NewRng(seed, 0xC0FFEE, uint64(i))
		big := i%2 == 1
		tiff, rec, _ := SynthPayload(r, big, 6)
		xrec := GenXMPRec(r, 50, 300)
		xmp := xrec.Serialise(r, RandXMPStyle(r, false), 0)
		add := func(name string, b []byte) {
			out = append(out, File{Name: name, Data: b, Kind: kindOf(b), Fields: WalkAny(b)})
		}
		sfx := strings.Repeat("i", i+1)
		add("synth/tiff-"+sfx, tiff)
		var segs []Seg
		for k := r.Range(0, 3); k > 0; k-- {
			segs = append(segs, RandOtherSeg(r, 300))
		}
		segs = append(segs, ExifSeg(tiff))
		if r.Bool() {
			segs = append(segs, RandOtherSeg(r, 100))
		}
		segs = append(segs, XMPSeg(xmp))
		add("synth/jpeg-"+sfx, BuildJPEG(r, segs, 200).Bytes)
		add("synth/png-"+sfx, BuildPNG(r, tiff, r.Range(0, 3), r.Range(0, 2)).Bytes)
		// CR3: separate payloads per directory
		rec2 := GenExifRec(r, RecOpts{})
		rec2.Assemble(false)
		mk := func(d *Dir) []byte {
			return BuildTIFF(d, Layout{Big: big, FirstOff: 8, MaxPad: 0, Order: 0, R: r}).Bytes
		}
		_ = rec
		cr3 := BuildCR3(r, CR3Parts{CMT1: mk(rec2.IFD0), CMT2: mk(rec2.Exif), CMT3: mk(&Dir{Kind: KOther}), CMT4: mk(rec2.GPS), XMP: xmp,
			Preview: append([]byte{0xFF, 0xD8}, r.Bytes(r.Range(100, 5000))...), PrvwW: 1620, PrvwH: 1080, CTBOOver: (i % 2) * 3}, 1, i%3 == 2)
		add("synth/cr3-"+sfx, cr3.Bytes)
		if i < 2 {
			// preview box last (no trailing mdat), preview large enough for direct reads
			c2 := BuildCR3(r, CR3Parts{CMT1: mk(rec2.IFD0), CMT2: mk(rec2.Exif), CMT4: mk(rec2.GPS), XMP: xmp,
				Preview: append([]byte{0xFF, 0xD8}, r.Bytes(r.Range(20000, 50000))...), PrvwW: 1620, PrvwH: 1080, NoMdat: true}, 0, false)
			add("synth/cr3-prvwlast-"+sfx, c2.Bytes)
			// few entries, long strings: values longer than everything read before them
			rec3 := GenExifRec(r, RecOpts{Density: 35, LongStrings: true})
			for _, id := range []uint16{0x010e, 0x0131, 0x013b, 0x8298} {
				rec3.IFD0.Add(id+0, ASCII(strings.Repeat(string(rune('A'+i)), 150)+XText(r, r.Range(50, 700))))
			}
			dedupDir(rec3.IFD0)
			add("synth/tiff-longstrings-"+sfx, BuildTIFF(rec3.Assemble(true), Layout{Big: big, FirstOff: 8, MaxPad: 0, Order: 0, R: r}).Bytes)
		}
		add("synth/heif-"+sfx, BuildHEIF(r, tiff, i))
		add("synth/xmp-"+sfx, xmp)
	}
	return out
}

// LoopShapes are inputs aimed at scanner loops (C02).
func LoopShapes(r *core.Rng, n int) []byte {
	rep := func(pat []byte, n int) []byte {
		out := make([]byte, 0, n)
		for len(out) < n {
			out = append(out, pat...)
		}
		return out[:n]
	}
	switch r.Intn(25) {
	case 0: // non-SOI marker first
		return append([]byte{0xFF, 0xE0, 0x00, 0x10}, rep([]byte{0x4A, 0x46}, n)...)
	case 1: // SOI EOI then marker
		return append([]byte{0xFF, 0xD8, 0xFF, 0xD9, 0xFF, 0xE1, 0x00, 0x08}, rep([]byte{0}, n)...)
	case 2:
		return append([]byte{0xFF, 0xD8}, rep([]byte{0xFF}, n)...)
	case 3: // zero-length segments
		return append([]byte{0xFF, 0xD8}, rep([]byte{0xFF, 0xE2, 0x00, 0x00}, n)...)
	case 4: // length 2 segments
		return append([]byte{0xFF, 0xD8}, rep([]byte{0xFF, 0xE5, 0x00, 0x02}, n)...)
	case 5: // nested SOIs
		return rep([]byte{0xFF, 0xD8}, n)
	case 6: // SOI/EOI alternating
		return rep([]byte{0xFF, 0xD8, 0xFF, 0xD9}, n)
	case 7: // partial TIFF signatures
		return append([]byte("II*\x00\x08\x00\x00\x00"), rep([]byte("II*IIMM\x00MMII"), n)...)
	case 8:
		return rep([]byte("IIIIMMMM"), n)
	case 9: // ftyp + zero-size boxes
		b := Ftyp("crx ", 1, "crx ", "isom").Serialise(nil)
		return append(b, rep([]byte{0, 0, 0, 0, 'f', 'r', 'e', 'e'}, n)...)
	case 10: // ftyp + size<8 boxes
		b := Ftyp("crx ", 1, "crx ", "isom").Serialise(nil)
		return append(b, rep([]byte{0, 0, 0, 4, 'm', 'o', 'o', 'v'}, n)...)
	case 11: // moov full of zero-size children
		kids := rep([]byte{0, 0, 0, 0, 'u', 'u', 'i', 'd'}, n)
		b := Ftyp("crx ", 1, "crx ", "isom").Serialise(nil)
		return (&Box{Type: "moov", Payload: kids}).Serialise(b)
	case 12: // meta with iinf of zero-size entries
		iinf := &Box{Type: "iinf", Full: true, Pre: []byte{0xFF, 0xFF}, Payload: rep([]byte{0, 0, 0, 0, 'i', 'n', 'f', 'e', 2, 0, 0, 0}, min(n, 3000))}
		b := Ftyp("heic", 0, "mif1", "heic").Serialise(nil)
		return (&Box{Type: "meta", Full: true, Kids: []*Box{iinf}}).Serialise(b)
	case 13: // iinf with non-infe zero-size children
		iinf := &Box{Type: "iinf", Full: true, Pre: []byte{0, 9}, Payload: rep([]byte{0, 0, 0, 0, 'x', 'x', 'x', 'x', 0, 0, 0, 0}, min(n, 3000))}
		b := Ftyp("avif", 0, "mif1", "avif").Serialise(nil)
		return (&Box{Type: "meta", Full: true, Kids: []*Box{iinf}}).Serialise(b)
	case 14: // iloc with huge counts
		p := []byte{0x44, 0x40, 0xFF, 0xFF}
		p = append(p, rep([]byte{0, 1, 0, 0, 0, 0, 0, 0, 0xFF, 0xFF}, min(n, 3000))...)
		b := Ftyp("avif", 0, "mif1", "avif").Serialise(nil)
		return (&Box{Type: "meta", Full: true, Kids: []*Box{{Type: "iloc", Full: true, Payload: p}}}).Serialise(b)
	case 15: // 64-bit sizes beyond the file
		b := Ftyp("crx ", 1, "crx ", "isom").Serialise(nil)
		bx := &Box{Type: "moov", Large: true, Payload: rep([]byte{0, 0, 0, 1, 'u', 'u', 'i', 'd', 0x7f, 0xff, 0xff, 0xff, 0xff, 0xff, 0xff, 0xff}, n), HasForce: true, SizeForce: 0x7ffffffffffffff0}
		return bx.Serialise(b)
	case 16: // PNG chunk lengths that wrap length+4
		b := []byte("\x89PNG\r\n\x1a\n")
		return append(b, rep([]byte{0xFF, 0xFF, 0xFF, 0xFC, 'a', 'b', 'c', 'd'}, n)...)
	case 17: // PNG zero-length chunks forever
		b := []byte("\x89PNG\r\n\x1a\n")
		return append(b, rep([]byte{0, 0, 0, 0, 't', 'E', 'X', 't', 0, 0, 0, 0}, n)...)
	case 18: // XMP with kilobytes of white space
		return []byte("<x:xmpmeta xmlns:x='adobe:ns:meta/'>" + strings.Repeat(" \n", n/2) + "<rdf:RDF></rdf:RDF></x:xmpmeta>")
	case 19: // unterminated quote
		return []byte("<x:xmpmeta xmlns:x='adobe:ns:meta/'><rdf:RDF><rdf:Description rdf:about='" + strings.Repeat("a", n))
	case 20: // deep nesting
		return []byte("<x:xmpmeta xmlns:x='adobe:ns:meta/'>" + strings.Repeat("<a:b>", n/5) + "</x:xmpmeta>")
	case 21: // APP1 segments the scanner knows by name and does not read (Extended XMP), others it does not know
		pre := r.PickStr("http://ns.adobe.com/xmp/extension/\x00", "http://ns.adobe.com/xmp/extension/\x00", "http://ns.adobe.com/xap/1.0/se", "Exif\x00", "XMP\x00")
		body := append([]byte(pre), rep([]byte("0123456789ABCDEF"), r.Pick(0, 40, 900))...)
		seg := append([]byte{0xFF, 0xE1, byte((len(body) + 2) >> 8), byte(len(body) + 2)}, body...)
		return append([]byte{0xFF, 0xD8}, rep(seg, n)...)
	case 22: // PNG whose eXIf chunks are not TIFF data, of every short length
		b := append([]byte("\x89PNG\r\n\x1a\n"), 0, 0, 0, 13, 'I', 'H', 'D', 'R', 0, 0, 0, 1, 0, 0, 0, 1, 8, 0, 0, 0, 0, 0, 0, 0, 0)
		for len(b) < n {
			l := r.Pick(0, 1, 2, 3, 4, 4, 5, 8, 12, 17)
			b = append(b, 0, 0, 0, byte(l), 'e', 'X', 'I', 'f')
			b = append(b, rep([]byte("abcd"), l)...)
			b = append(b, 0, 0, 0, 0)
		}
		return b
	case 23: // JPEG: SOI nested twice, then frame / table segments without any quantisation table
		b := []byte{0xFF, 0xD8, 0xFF, 0xD8}
		for len(b) < n {
			m := byte(r.Pick(0xC0, 0xC3, 0xC4, 0xC8, 0xCC, 0xC1))
			b = append(b, 0xFF, m, 0, 11, 8, 0, 1, 0, 1, 1, 1, 0x11, 0)
		}
		return b
	default: // many '<' characters
		return []byte(strings.Repeat("<", n/2) + "<x:xmpmeta " + strings.Repeat("<x:", n/6))
	}
}
