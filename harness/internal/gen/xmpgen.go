package gen

import (
	"fmt"
	"strings"
	"time"
	"unicode/utf8"

	"verif/harness/internal/core"
	"verif/harness/internal/obs"
)

// XProp is one supported XMP property in a generated packet.
type XProp struct {
	NS, Name string
	Kind     string   // "simple", "seq", "bag", "alt"
	Values   []string // textual values as written
	Elem     bool     // element form (arrays are always elements)
}

// XMPRec is a logical XMP record with its expectation over the canonical observation.
type XMPRec struct {
	Props []XProp
	Exp   *Expect
}

var nsURI = map[string]string{
	"tiff": "http://ns.adobe.com/tiff/1.0/", "exif": "http://ns.adobe.com/exif/1.0/", "aux": "http://ns.adobe.com/exif/1.0/aux/",
	"xmp": "http://ns.adobe.com/xap/1.0/", "xap": "http://ns.adobe.com/xap/1.0/", "xmpMM": "http://ns.adobe.com/xap/1.0/mm/",
	"xapMM": "http://ns.adobe.com/xap/1.0/mm/", "crs": "http://ns.adobe.com/camera-raw-settings/1.0/", "dc": "http://purl.org/dc/elements/1.1/",
	"photoshop": "http://ns.adobe.com/photoshop/1.0/", "lr": "http://ns.adobe.com/lightroom/1.0/", "foo": "http://example.com/foo/1.0/",
	"Iptc4xmpCore": "http://iptc.org/std/Iptc4xmpCore/1.0/xmlns/", "xmpRights": "http://ns.adobe.com/xap/1.0/rights/",
}

const xmlSafe = "ABCDEFGHIJKLMNOPQRSTUVWXYZabcdefghijklmnopqrstuvwxyz0123456789-_.,:;/()[]#+*!?@%$=~^|{}>>"

// XText draws a value of exactly n bytes without XML-special characters or outer blanks.
func XText(r *core.Rng, n int) string {
	b := make([]byte, n)
	for i := range b {
		if i > 0 && i < n-1 && r.Chance(1, 9) {
			b[i] = ' '
		} else {
			b[i] = xmlSafe[r.Intn(len(xmlSafe))]
		}
	}
	if n >= 3 && r.Chance(1, 8) {
		// one kind of quote character inside the value (an apostrophe, or inches)
		qc := byte(r.Pick('\'', '"'))
		for k := r.Range(1, 2); k > 0; k-- {
			b[r.Range(1, n-2)] = qc
		}
	}
	if n >= 8 && r.Chance(1, 6) {
		// non-ASCII text, among it characters that Unicode calls spaces but XML does not (they are
		// part of the value wherever they stand); the byte length stays n
		put := func(at int, u string) {
			if at >= 0 && at+len(u) <= n {
				copy(b[at:], u)
			}
		}
		us := []string{"\u00a0", "\u3000", "\u2003", "\u0085", "\u2028", "\u00e9", "\u6771", "\u00df"}
		if r.Bool() {
			put(0, us[r.Intn(len(us))])
		}
		if r.Bool() {
			u := us[r.Intn(len(us))]
			put(n-len(u), u)
		}
		if r.Bool() {
			put(r.Range(3, n-4)-3+3, us[r.Intn(len(us))])
		}
		// keep the result valid UTF-8 (overlapping writes may have cut a character)
		if !utf8.Valid(b) {
			for i := range b {
				if b[i] >= 0x80 {
					b[i] = 'x'
				}
			}
		}
	}
	return string(b)
}

func xLen(r *core.Rng, maxLen int) int {
	switch c := r.Intn(100); {
	case c < 20:
		return r.Range(1, 4)
	case c < 74:
		return r.Range(5, 60)
	case c < 80:
		// at the edges of the reader's look-ahead windows (128, 256, 512, 1024 bytes: the closing
		// quote or tag among the last or first bytes of a window)
		if n := r.Pick(128, 256, 256, 512, 1024) - r.Intn(9) + 2; n <= maxLen {
			return n
		}
		return r.Range(5, 60)
	case c < 92:
		return r.Range(61, 300)
	default:
		return r.Range(301, maxLen)
	}
}

func xmpZeroKeyTime(e *Expect, key string, t time.Time) {
	m := obs.Map{}
	obs.PutTime(m, key, t)
	for k, v := range m {
		e.Exact[k] = []string{v}
	}
}

func randXMPDate(r *core.Rng) (string, time.Time) {
	d := randDT(r)
	if d.Y < 1000 {
		d.Y += 1000
	}
	base := fmt.Sprintf("%04d-%02d-%02dT%02d:%02d:%02d", d.Y, d.M, d.D, d.h, d.m, d.s)
	switch r.Intn(6) {
	case 4, 5:
		// fractional seconds of 1..7 digits together with a zone designator
		nd := r.Range(1, 7)
		f := r.Intn(pow10(nd))
		frac := fmt.Sprintf("%0*d", nd, f)
		ns := f * pow10(9-nd)
		if r.Bool() {
			return base + "." + frac + "Z", time.Date(d.Y, time.Month(d.M), d.D, d.h, d.m, d.s, ns, time.UTC)
		}
		hh, mm := r.Range(0, 14), r.Pick(0, 0, 30, 45)
		sign, sc := 1, "+"
		if r.Bool() {
			sign, sc = -1, "-"
		}
		off := sign * (hh*3600 + mm*60)
		return fmt.Sprintf("%s.%s%s%02d:%02d", base, frac, sc, hh, mm), time.Date(d.Y, time.Month(d.M), d.D, d.h, d.m, d.s, ns, time.FixedZone("", off))
	case 0:
		return base, time.Date(d.Y, time.Month(d.M), d.D, d.h, d.m, d.s, 0, time.UTC)
	case 1:
		f := r.Intn(100)
		return fmt.Sprintf("%s.%02d", base, f), time.Date(d.Y, time.Month(d.M), d.D, d.h, d.m, d.s, f*1e7, time.UTC)
	case 2:
		return base + "Z", time.Date(d.Y, time.Month(d.M), d.D, d.h, d.m, d.s, 0, time.UTC)
	default:
		hh, mm := r.Range(0, 14), r.Pick(0, 0, 30, 45)
		sign, sc := 1, "+"
		if r.Bool() {
			sign, sc = -1, "-"
		}
		off := sign * (hh*3600 + mm*60)
		return fmt.Sprintf("%s%s%02d:%02d", base, sc, hh, mm), time.Date(d.Y, time.Month(d.M), d.D, d.h, d.m, d.s, 0, time.FixedZone("", off))
	}
}

func randUUIDText(r *core.Rng) (string, [16]byte) {
	var u [16]byte
	copy(u[:], r.Bytes(16))
	canon := fmt.Sprintf("%x-%x-%x-%x-%x", u[0:4], u[4:6], u[6:8], u[8:10], u[10:16])
	hash := fmt.Sprintf("%x", u[:])
	if r.Bool() {
		canon, hash = strings.ToUpper(canon), strings.ToUpper(hash)
	}
	body := canon
	if r.Bool() {
		body = hash
	}
	switch r.Intn(6) {
	case 4:
		return "urn:uuid:" + body, u
	case 5:
		return "adobe:docid:photoshop:" + body, u
	case 0:
		return "xmp.did:" + body, u
	case 1:
		return "xmp.iid:" + body, u
	case 2:
		return "uuid:" + body, u
	default:
		return body, u
	}
}

// GenXMPRec draws a record of supported properties. maxLen bounds text values.
func GenXMPRec(r *core.Rng, density int, maxLen int) *XMPRec {
	rec := &XMPRec{Exp: newExpect()}
	e := rec.Exp
	has := func() bool { return r.Intn(100) < density }
	add := func(ns, name, val string) {
		rec.Props = append(rec.Props, XProp{NS: ns, Name: name, Kind: "simple", Values: []string{val}, Elem: r.Bool()})
	}
	str := func(ns, name, key string) {
		if has() {
			v := XText(r, xLen(r, maxLen))
			add(ns, name, v)
			e.Exact[key] = []string{"s:" + v}
			e.Names = append(e.Names, key)
		}
	}
	uintp := func(ns, name, key string, max uint64) {
		if has() {
			v := r.U64() % (max + 1)
			if r.Chance(1, 6) {
				v = max
			}
			if r.Chance(1, 2) && max > 300 {
				v = uint64(r.Intn(300))
			}
			add(ns, name, fmt.Sprintf("%d", v))
			e.Exact[key] = []string{fmt.Sprintf("u:%d", v)}
			e.Names = append(e.Names, key)
		}
	}
	ratp := func(ns, name, key string) {
		if has() {
			q := randRat(r)
			add(ns, name, fmt.Sprintf("%d/%d", q[0], q[1]))
			e.F32[key] = q32(q)
			e.Names = append(e.Names, key)
		}
	}
	datep := func(ns, name, key string) {
		if has() && r.Chance(1, 7) {
			// a legal XMP date of reduced precision: whatever the library makes of the date itself,
			// the properties around it must not be affected
			add(ns, name, r.PickStr("2020-05-17", "2020", "2020-05", "2020-05-17T10:30+02:00", "2020-05-17T10:30", "2020-05-17T10:30Z"))
			for _, sfx := range []string{".unix", ".off", ".wall"} {
				e.Any[key+sfx] = true
			}
			return
		}
		if has() {
			s, t := randXMPDate(r)
			add(ns, name, s)
			m := obs.Map{}
			obs.PutTime(m, key, t)
			e.Exact[key+".unix"] = []string{m[key+".unix"]}
			e.Exact[key+".off"] = []string{m[key+".off"]}
			e.Exact[key+".wall"] = []string{m[key+".wall"]}
			e.Names = append(e.Names, key)
		}
	}
	biasp := func(ns, name, key string) {
		if has() {
			n := r.Range(-20, 20)
			d := r.Pick(1, 2, 3, 6, 10, 100, 255)
			s := fmt.Sprintf("%d/%d", n, d)
			if n > 0 && r.Bool() {
				s = "+" + s
			}
			add(ns, name, s)
			packed := int16(n)<<8 + int16(d)
			acc := []string{fmt.Sprintf("i:%d", packed)}
			if n == 0 {
				acc = append(acc, "i:0") // zero exposure bias has one canonical encoding in the library
			}
			e.Exact[key] = acc
			e.Names = append(e.Names, key)
		}
	}
	uuidp := func(ns, name, key string) {
		if has() {
			s, u := randUUIDText(r)
			add(ns, name, s)
			e.Exact[key] = []string{obs.Value(u)}
			e.Names = append(e.Names, key)
		}
	}
	xapNS := r.PickStr("xmp", "xmp", "xap")
	mmNS := r.PickStr("xmpMM", "xmpMM", "xapMM")

	str("tiff", "Make", "XMP.Tiff.Make")
	str("tiff", "Model", "XMP.Tiff.Model")
	uintp("tiff", "ImageWidth", "XMP.Tiff.ImageWidth", 65535)
	uintp("tiff", "ImageLength", "XMP.Tiff.ImageLength", 65535)
	uintp("tiff", "Orientation", "XMP.Tiff.Orientation", 8)
	uintp("exif", "PixelXDimension", "XMP.Exif.PixelXDimension", 4294967295)
	uintp("exif", "PixelYDimension", "XMP.Exif.PixelYDimension", 4294967295)
	datep("exif", "DateTimeOriginal", "XMP.Exif.DateTimeOriginal")
	ratp("exif", "ExposureTime", "XMP.Exif.ExposureTime")
	uintp("exif", "ExposureProgram", "XMP.Exif.ExposureProgram", 9)
	uintp("exif", "ExposureMode", "XMP.Exif.ExposureMode", 2)
	biasp("exif", "ExposureBiasValue", "XMP.Exif.ExposureBias")
	ratp("exif", "FocalLength", "XMP.Exif.FocalLength")
	ratp("exif", "SubjectDistance", "XMP.Exif.SubjectDistance")
	if has() { // documented metering modes 0..6 and 255
		v := r.Pick(0, 1, 2, 3, 4, 5, 6, 255)
		add("exif", "MeteringMode", fmt.Sprintf("%d", v))
		e.Exact["XMP.Exif.MeteringMode"] = []string{fmt.Sprintf("u:%d", v)}
		e.Names = append(e.Names, "XMP.Exif.MeteringMode")
	}
	ratp("exif", "FNumber", "XMP.Exif.Aperture")
	if has() {
		v := r.U32()
		if r.Chance(3, 4) {
			v = uint32(r.Pick(50, 100, 200, 400, 800, 1600, 3200, 6400, 25600, 102400))
		}
		if r.Chance(1, 10) {
			v = 4294967295
		}
		rec.Props = append(rec.Props, XProp{NS: "exif", Name: "ISOSpeedRatings", Kind: "seq", Values: []string{fmt.Sprintf("%d", v)}, Elem: true})
		e.Exact["XMP.Exif.ISOSpeedRatings"] = []string{fmt.Sprintf("u:%d", v)}
		e.Names = append(e.Names, "XMP.Exif.ISOSpeedRatings")
	}
	str("aux", "SerialNumber", "XMP.Aux.SerialNumber")
	str("aux", "Lens", "XMP.Aux.Lens")
	str("aux", "LensInfo", "XMP.Aux.LensInfo")
	uintp("aux", "LensID", "XMP.Aux.LensID", 4294967295)
	str("aux", "LensSerialNumber", "XMP.Aux.LensSerialNumber")
	uintp("aux", "ImageNumber", "XMP.Aux.ImageNumber", 65535)
	biasp("aux", "FlashCompensation", "XMP.Aux.FlashCompensation")
	datep(xapNS, "CreateDate", "XMP.Basic.CreateDate")
	datep(xapNS, "ModifyDate", "XMP.Basic.ModifyDate")
	datep(xapNS, "MetadataDate", "XMP.Basic.MetadataDate")
	str(xapNS, "CreatorTool", "XMP.Basic.CreatorTool")
	str(xapNS, "Label", "XMP.Basic.Label")
	if has() {
		v := r.Range(-1, 5)
		add(xapNS, "Rating", fmt.Sprintf("%d", v))
		e.Exact["XMP.Basic.Rating"] = []string{fmt.Sprintf("i:%d", v)}
		e.Names = append(e.Names, "XMP.Basic.Rating")
	}
	uuidp(mmNS, "DocumentID", "XMP.MM.DocumentID")
	uuidp(mmNS, "OriginalDocumentID", "XMP.MM.OriginalDocumentID")
	uuidp(mmNS, "InstanceID", "XMP.MM.InstanceID")
	str(mmNS, "PreservedFileName", "XMP.MM.PreservedFileName")
	str("crs", "RawFileName", "XMP.CRS.RawFileName")
	if has() {
		it := []struct {
			s string
			v int
		}{{"image/jpeg", 1}, {"image/png", 2}, {"image/tiff", 8}, {"image/x-canon-cr3", 15}, {"image/x-canon-cr2", 16}, {"image/x-adobe-dng", 9}, {"image/heif", 6}, {"image/avif", 19}}[r.Intn(8)]
		add("dc", "format", it.s)
		e.Exact["XMP.DC.Format"] = []string{fmt.Sprintf("u:%d", it.v)}
		e.Names = append(e.Names, "XMP.DC.Format")
	}
	arr := func(name, kind, key string) {
		if has() {
			n := r.Range(1, 4)
			if r.Chance(1, 10) {
				n = r.Range(5, 30)
			}
			if r.Chance(1, 8) {
				n = 0 // a zero-item array (written as <rdf:Bag/> or <rdf:Bag></rdf:Bag>)
			}
			if r.Chance(1, 60) {
				n = r.Pick(255, 256, 257, 300) // more items than fit a byte counter
			}
			vals := make([]string, n)
			for i := range vals {
				if n > 100 {
					vals[i] = XText(r, r.Range(1, 6))
					continue
				}
				vals[i] = XText(r, xLen(r, maxLen))
			}
			rec.Props = append(rec.Props, XProp{NS: "dc", Name: name, Kind: kind, Values: vals, Elem: true})
			e.Exact[key] = []string{obs.Value(vals)}
			e.Names = append(e.Names, key)
		}
	}
	arr("creator", "seq", "XMP.DC.Creator")
	arr("subject", "bag", "XMP.DC.Subject")
	arr("rights", "alt", "XMP.DC.Rights")
	arr("title", "alt", "XMP.DC.Title")
	arr("description", "alt", "XMP.DC.Description")
	return rec
}

// XMPStyle controls serialisation.
type XMPStyle struct {
	Quote       byte   // '"' or '\''
	WS          string // white space between attributes ("\n   ", " ", "\r\n ", "\t")
	Indent      string
	NL          string
	Leading     string // junk before the root element
	Unknown     int    // number of unknown properties interleaved
	SplitDesc   bool   // two rdf:Description elements
	SelfClose   bool   // attribute-only description closed with "/>"
	LangAttr    bool   // xml:lang on alt items
	PadBeforeGT int
	EndTagWS    string // white space between the name and '>' of end tags (legal XML: "</a:b >")
	// EmptyArrSelfClose writes zero-item arrays as an empty-element tag (<rdf:Bag/>), as the
	// Adobe toolkit does, instead of <rdf:Bag></rdf:Bag>.
	EmptyArrSelfClose bool
	// ManyArrays puts that many unknown one-item arrays in front of the other elements (array
	// handling must not wear out with the number of arrays seen).
	ManyArrays int
	// EqWS: white space around the '=' of attributes (XML: Eq ::= S? '=' S?).
	EqWS [2]string
	// ItemLang: xml:lang qualifiers also on the items of Seq / Bag arrays (dc:subject, dc:creator).
	ItemLang bool
	// LongGap > 0: that many bytes of white space (more than the reader's buffer holds) stand
	// between two elements, or between the last element and the end tag of its parent.
	LongGap int
}

// RandXMPStyle draws a style. exotic enables TAB / CR LF separators.
func RandXMPStyle(r *core.Rng, exotic bool) XMPStyle {
	st := XMPStyle{Quote: '"', WS: "\n   ", Indent: " ", NL: "\n", LangAttr: true}
	if r.Chance(1, 3) {
		st.Quote = '\''
	}
	switch r.Intn(6) {
	case 0:
		st.WS = " "
	case 1:
		st.WS = "\n"
	case 2:
		st.WS = "  \n      "
	case 3:
		if exotic {
			st.WS = "\r\n   "
			st.NL = "\r\n"
		}
	case 4:
		if exotic {
			st.WS = "\t"
			st.Indent = "\t"
		}
	}
	if r.Chance(1, 10) {
		st.WS += strings.Repeat(" ", r.Range(10, 200))
	}
	switch r.Intn(5) {
	case 0:
		st.Leading = "<?xpacket begin=\"\xef\xbb\xbf\" id=\"W5M0MpCehiHzreSzNTczkc9d\"?>\n"
	case 1:
		st.Leading = "\xef\xbb\xbf"
	case 2:
		st.Leading = string(r.Bytes(r.Range(1, 300)))
		st.Leading = strings.ReplaceAll(st.Leading, "<x:xmpmeta", "<y:xmpmeta")
	case 3:
		st.Leading = "<?xml version=\"1.0\" encoding=\"UTF-8\"?>\n<!-- c -->\n< x : <x:xmpmet <x:xmp\n"
	}
	if exotic && r.Chance(1, 4) {
		st.PadBeforeGT = r.Range(1, 40)
	}
	if r.Chance(1, 4) {
		st.EndTagWS = r.PickStr(" ", "\n", "  ", " \n ")
		if exotic {
			st.EndTagWS = r.PickStr(" ", "\n", "\t ", "\r\n", "   ")
		}
	}
	st.EmptyArrSelfClose = r.Bool()
	if r.Chance(1, 12) {
		st.LongGap = r.Pick(1300, 1411, 1538, 1539, 2000, 4096, 9000)
	}
	if r.Chance(1, 40) {
		st.ManyArrays = r.Pick(61, 70, 100, 130, 260)
	}
	st.Unknown = r.Pick(0, 0, 1, 3, 8)
	st.SplitDesc = r.Chance(1, 4)
	if r.Chance(1, 5) {
		st.EqWS = [2]string{r.PickStr("", " ", "  ", "\n"), r.PickStr("", " ", "\t", " \n ")}
	}
	st.ItemLang = r.Chance(1, 4)
	st.SelfClose = r.Chance(1, 3)
	st.LangAttr = r.Chance(3, 4)
	return st
}

type unknownProp struct {
	attr bool
	text string
}

func randUnknown(r *core.Rng, q string) unknownProp {
	ns := r.PickStr("photoshop", "lr", "foo", "Iptc4xmpCore", "xmpRights", "tiff", "exif", "aux", "crs")
	name := r.PickStr("XResolution", "YResolution", "ColorMode", "ICCProfile", "Urgency", "Bar", "Location", "Marked", "Whatever", "NativeDigest", "Version", "HasSettings", "Contrast2012")
	if ns == "exif" {
		name = r.PickStr("ColorSpace", "NativeDigest", "SceneCaptureType", "WhiteBalance", "CustomRendered")
	}
	if ns == "tiff" {
		name = r.PickStr("XResolution", "YResolution", "ResolutionUnit", "NativeDigest", "Compression")
	}
	if ns == "aux" {
		name = r.PickStr("Firmware", "ApproximateFocusDistance", "OwnerName")
	}
	if ns == "crs" {
		name = r.PickStr("Version", "ProcessVersion", "WhiteBalance", "Temperature", "Tint", "HasSettings")
	}
	val := XText(r, r.Range(1, 40))
	if r.Chance(1, 5) {
		// an array of an unsupported property whose items carry properties of supported namespaces
		// (the ingredients of a composed document describe other files): none of it is the
		// document's own
		own := []string{"xmpMM:InstanceID=" + q + "xmp.iid:dddddddd-1111-2222-3333-444444444444" + q, "xmpMM:DocumentID=" + q + "xmp.did:eeeeeeee-1111-2222-3333-444444444444" + q,
			"dc:format=" + q + "image/png" + q, "xmp:CreateDate=" + q + "2017-03-04T04:06:07" + q, "tiff:Make=" + q + "NIKON CORPORATION" + q, "tiff:Model=" + q + "NIKON D850" + q,
			"xmp:Rating=" + q + "4" + q, "exif:FNumber=" + q + "71/10" + q, "aux:Lens=" + q + "other lens" + q, "tiff:Orientation=" + q + "8" + q, "xmp:CreatorTool=" + q + "other tool" + q}
		var as []string
		for _, i := range r.Perm(len(own))[:r.Range(1, 5)] {
			as = append(as, own[i])
		}
		item := "<rdf:li><rdf:Description " + strings.Join(as, " ") + "/></rdf:li>"
		if r.Bool() {
			item = "<rdf:li " + strings.Join(as, " ") + "/>"
		}
		prop := r.PickStr("xmpMM:Pantry", "xmpMM:Ingredients", "foo:Parts", "photoshop:DocumentAncestors", "xmpMM:History")
		cont := r.PickStr("Bag", "Seq")
		n := r.Range(1, 3)
		if r.Chance(1, 5) {
			// a long edit history: hundreds of items, none nested deeper than the first
			n = r.Pick(255, 256, 257, 300, 700)
			item = "<rdf:li stEvt:action=" + q + "saved" + q + " stEvt:when=" + q + "2020-01-02T03:04:05" + q + "/>"
		}
		return unknownProp{text: fmt.Sprintf("<%s><rdf:%s>%s</rdf:%s></%s>", prop, cont, strings.Repeat(item, n), cont, prop)}
	}
	if r.Bool() {
		aq := q
		if strings.Contains(val, q) {
			aq = map[string]string{"'": "\"", "\"": "'"}[q]
		}
		return unknownProp{attr: true, text: fmt.Sprintf("%s:%s=%s%s%s", ns, name, aq, val, aq)}
	}
	switch r.Intn(3) {
	case 0:
		return unknownProp{text: fmt.Sprintf("<%s:%s>%s</%s:%s>", ns, name, val, ns, name)}
	case 1:
		return unknownProp{text: fmt.Sprintf("<%s:%s><rdf:Bag><rdf:li>%s</rdf:li><rdf:li>%s</rdf:li></rdf:Bag></%s:%s>", ns, name, val, XText(r, 5), ns, name)}
	default:
		return unknownProp{text: fmt.Sprintf("<%s:%s/>", ns, name)}
	}
}

// Serialise writes the packet. forceForm: 0 = per-property choice, 1 = all simple props as
// attributes, 2 = all as elements.
func (rec *XMPRec) Serialise(r *core.Rng, st XMPStyle, forceForm int) []byte {
	q := string(st.Quote)
	var sb strings.Builder
	sb.WriteString(st.Leading)
	sb.WriteString("<x:xmpmeta" + st.WS + "xmlns:x=" + q + "adobe:ns:meta/" + q + st.WS + "x:xmptk=" + q + "XMP Core 5.6.0" + q + ">" + st.NL)
	sb.WriteString(st.Indent + "<rdf:RDF xmlns:rdf=" + q + "http://www.w3.org/1999/02/22-rdf-syntax-ns#" + q + ">" + st.NL)
	order := r.Perm(len(rec.Props))
	groups := [][]int{order}
	if st.SplitDesc && len(order) > 1 {
		k := r.Range(1, len(order)-1)
		groups = [][]int{order[:k], order[k:]}
	}
	for _, grp := range groups {
		var attrs, elems []string
		for _, pi := range grp {
			p := rec.Props[pi]
			elem := p.Elem
			if p.Kind == "simple" {
				if forceForm == 1 {
					elem = false
				} else if forceForm == 2 {
					elem = true
				}
			}
			if !elem {
				// a value may contain the quote character that does not delimit it
				aq := q
				if strings.Contains(p.Values[0], q) {
					aq = map[string]string{"'": "\"", "\"": "'"}[q]
				}
				attrs = append(attrs, fmt.Sprintf("%s:%s%s=%s%s%s%s", p.NS, p.Name, st.EqWS[0], st.EqWS[1], aq, p.Values[0], aq))
				continue
			}
			switch p.Kind {
			case "simple":
				elems = append(elems, fmt.Sprintf("<%s:%s>%s</%s:%s%s>", p.NS, p.Name, p.Values[0], p.NS, p.Name, st.EndTagWS))
			default:
				cont := map[string]string{"seq": "Seq", "bag": "Bag", "alt": "Alt"}[p.Kind]
				var b strings.Builder
				if len(p.Values) == 0 && st.EmptyArrSelfClose {
					fmt.Fprintf(&b, "<%s:%s>%s%s<rdf:%s/>%s</%s:%s%s>", p.NS, p.Name, st.NL, st.Indent, cont, st.NL, p.NS, p.Name, st.EndTagWS)
					elems = append(elems, b.String())
					continue
				}
				fmt.Fprintf(&b, "<%s:%s>%s%s<rdf:%s>%s", p.NS, p.Name, st.NL, st.Indent, cont, st.NL)
				for i, v := range p.Values {
					if (p.Kind == "alt" && st.LangAttr) || (p.Kind != "alt" && st.ItemLang && i%2 == 0) {
						lang := "x-default"
						if i > 0 {
							lang = []string{"en-US", "de-DE", "fr", "ja-JP"}[i%4]
						}
						fmt.Fprintf(&b, "%s%s<rdf:li xml:lang=%s%s%s>%s</rdf:li%s>%s", st.Indent, st.Indent, q, lang, q, v, st.EndTagWS, st.NL)
					} else {
						fmt.Fprintf(&b, "%s%s<rdf:li>%s</rdf:li%s>%s", st.Indent, st.Indent, v, st.EndTagWS, st.NL)
					}
				}
				fmt.Fprintf(&b, "%s</rdf:%s%s>%s</%s:%s%s>", st.Indent, cont, st.EndTagWS, st.NL, p.NS, p.Name, st.EndTagWS)
				elems = append(elems, b.String())
			}
		}
		if st.ManyArrays > 0 {
			var pre []string
			for i := 0; i < st.ManyArrays; i++ {
				cont := []string{"Bag", "Seq", "Alt"}[i%3]
				pre = append(pre, fmt.Sprintf("<foo:Arr%d><rdf:%s><rdf:li>v%d</rdf:li></rdf:%s></foo:Arr%d>", i, cont, i, cont, i))
			}
			elems = append(pre, elems...)
		}
		// unknown properties interleaved
		for i := 0; i < st.Unknown; i++ {
			u := randUnknown(r, q)
			if u.attr {
				k := r.Intn(len(attrs) + 1)
				attrs = append(attrs[:k], append([]string{u.text}, attrs[k:]...)...)
			} else {
				k := r.Intn(len(elems) + 1)
				elems = append(elems[:k], append([]string{u.text}, elems[k:]...)...)
			}
		}
		sb.WriteString(st.Indent + st.Indent + "<rdf:Description rdf:about=" + q + q)
		// namespace declarations in a fixed order (deterministic output)
		for _, ns := range []string{"tiff", "exif", "aux", "xmp", "xap", "xmpMM", "xapMM", "crs", "dc", "photoshop", "lr", "foo", "Iptc4xmpCore", "xmpRights"} {
			sb.WriteString(st.WS + "xmlns:" + ns + "=" + q + nsURI[ns] + q)
		}
		for _, a := range attrs {
			sb.WriteString(st.WS + a)
		}
		if st.PadBeforeGT > 0 { // white space between the last attribute and the end of the tag
			sb.WriteString(strings.Repeat(" ", st.PadBeforeGT/2) + st.NL + strings.Repeat(" ", st.PadBeforeGT-st.PadBeforeGT/2))
		}
		if len(elems) == 0 && st.SelfClose {
			sb.WriteString("/>" + st.NL)
			continue
		}
		sb.WriteString(">" + st.NL)
		gapAt := -1
		if st.LongGap > 0 {
			gapAt = r.Intn(len(elems) + 1)
		}
		for k, el := range elems {
			if k == gapAt {
				sb.WriteString(strings.Repeat(" ", st.LongGap/2) + st.NL + strings.Repeat(" ", st.LongGap-st.LongGap/2))
			}
			sb.WriteString(st.Indent + st.Indent + st.Indent + el + st.NL)
		}
		if gapAt == len(elems) {
			sb.WriteString(strings.Repeat(" ", st.LongGap/2) + st.NL + strings.Repeat(" ", st.LongGap-st.LongGap/2))
		}
		sb.WriteString(st.Indent + st.Indent + "</rdf:Description" + st.EndTagWS + ">" + st.NL)
	}
	sb.WriteString(st.Indent + "</rdf:RDF>" + st.NL)
	sb.WriteString("</x:xmpmeta>" + st.NL)
	if strings.HasPrefix(st.Leading, "<?xpacket") {
		sb.WriteString(strings.Repeat(" ", 20) + st.NL + "<?xpacket end=" + q + "w" + q + "?>")
	}
	return []byte(sb.String())
}

func pow10(n int) int {
	p := 1
	for ; n > 0; n-- {
		p *= 10
	}
	return p
}
