package gen

import (
	"encoding/binary"
	"fmt"
	"math"
	"strconv"
	"strings"
	"time"

	"github.com/evanoberholster/imagemeta/exif2"
	"github.com/evanoberholster/imagemeta/exif2/ifds"
	"github.com/evanoberholster/imagemeta/exif2/ifds/mknote/apple"
	"github.com/evanoberholster/imagemeta/exif2/ifds/mknote/canon"

	"verif/harness/internal/core"
	"verif/harness/internal/obs"
)

// Expect is the reference-model expectation of the canonical observation of an exif2.Exif.
// Keys absent from every map are expected to hold the zero value's observation.
type Expect struct {
	Exact map[string][]string // key -> acceptable values (first is the specification value)
	F32   map[string]float64  // key -> value, compared after rounding to float32 with 1 ulp tolerance
	F64   map[string]float64  // key -> value, relative tolerance 1e-12
	Names []string            // fields populated (for signatures)
	Any   map[string]bool     // keys whose value is not specified (anything is accepted)
}

func newExpect() *Expect {
	return &Expect{Exact: map[string][]string{}, F32: map[string]float64{}, F64: map[string]float64{}, Any: map[string]bool{}}
}

var zeroObs = obs.Exif(exif2.Exif{})

// Compare returns the mismatches between an observation and the expectation. Zone *names* are
// not compared (the Exif specification defines the offset, not a name); ImageType is compared
// by the caller.
func (e *Expect) Compare(got obs.Map) []string {
	var bad []string
	for k, g := range got {
		if strings.HasSuffix(k, ".zone") || k == "Exif.ImageType" || e.Any[k] {
			continue
		}
		if want, ok := e.F32[k]; ok {
			if !f32Close(g, want) {
				bad = append(bad, fmt.Sprintf("%s: got %s want float32(%v)", k, g, want))
			}
			continue
		}
		if want, ok := e.F64[k]; ok {
			if !f64Close(g, want) {
				bad = append(bad, fmt.Sprintf("%s: got %s want %v", k, g, want))
			}
			continue
		}
		wants, ok := e.Exact[k]
		if !ok {
			wants = []string{zeroObs[k]}
		}
		match := false
		for _, w := range wants {
			if w == g {
				match = true
			}
		}
		if !match {
			bad = append(bad, fmt.Sprintf("%s: got %q want %q", k, clipS(g, 80), clipS(wants[0], 80)))
		}
	}
	return bad
}

func clipS(s string, n int) string {
	if len(s) > n {
		return s[:n] + "…"
	}
	return s
}

// F32Close is exported for other reference models.
func F32Close(got string, want float64) bool { return f32Close(got, want) }

func f32Close(got string, want float64) bool {
	if !strings.HasPrefix(got, "f32:") {
		return false
	}
	u, err := strconv.ParseUint(got[4:], 16, 32)
	if err != nil {
		return false
	}
	g := math.Float32frombits(uint32(u))
	w := float32(want)
	if g == w {
		return true
	}
	if math.IsNaN(float64(g)) || math.IsNaN(float64(w)) {
		return false
	}
	return g == math.Nextafter32(w, float32(math.Inf(1))) || g == math.Nextafter32(w, float32(math.Inf(-1)))
}

func f64Close(got string, want float64) bool {
	if !strings.HasPrefix(got, "f64:") {
		return false
	}
	u, err := strconv.ParseUint(got[4:], 16, 64)
	if err != nil {
		return false
	}
	g := math.Float64frombits(u)
	if g == want {
		return true
	}
	return math.Abs(g-want) <= 1e-12*math.Max(math.Abs(want), 1e-300)
}

// ExifRec is a logical record: three directories of known fields plus the expectation.
type ExifRec struct {
	IFD0, Exif, GPS *Dir
	Exp             *Expect
	HasExif, HasGPS bool
	Note            string // description of the maker note, if one was added
	// NoteTags: out-of-line entries inside the maker note (they occupy the reader's pending table
	// while the note is read)
	NoteTags int
	Make     string
	// DNG: the first directory carries a DNGVersion tag (BYTE x4, major version first): a file
	// sniffed as plain TIFF is then a DNG file; other containers keep their type
	DNG bool
}

type RecOpts struct {
	// Slotty favours values living in the 4-byte slot (C07).
	Slotty bool
	// Density of fields: probability numerator out of 100 that a given field is present.
	Density int
	// NikonBigNote: Make is Nikon, the Exif directory carries a type-3 maker note with 82 entries,
	// and a GPS position is present.
	NikonBigNote bool
	// LongStrings allows strings up to 1000 bytes, a few up to 4090.
	LongStrings bool
}

const printable = "ABCDEFGHIJKLMNOPQRSTUVWXYZabcdefghijklmnopqrstuvwxyz0123456789-_.,:;/()[]#+*!?@&%$=<>'\"~^|{}"

func randText(r *core.Rng, o RecOpts) string {
	var n int
	switch c := r.Intn(100); {
	case c < 4:
		n = 0
	case c < 22 || (o.Slotty && c < 60):
		n = r.Range(1, 3)
	case c < 30:
		n = r.Range(4, 8)
	case c < 90 || !o.LongStrings:
		n = r.Range(5, 60)
	case c < 97:
		n = r.Range(61, 400)
	default:
		n = r.Range(401, 1000)
		if r.Chance(1, 3) {
			n = r.Pick(1535, 1536, 4094, 4095, r.Range(1001, 4090), r.Range(1001, 4090)) // up to the 4 KiB read window (with its NUL), on every path
		}
	}
	b := make([]byte, n)
	for i := range b {
		if i > 0 && i < n-1 && r.Chance(1, 8) {
			b[i] = ' '
		} else {
			b[i] = printable[r.Intn(len(printable))]
		}
	}
	return string(b)
}

func asciiVal(r *core.Rng, s string) Val {
	b := append([]byte(s), 0)
	if r.Chance(1, 10) && len(b)+3 <= 4096 { // extra NUL padding after the terminator (the whole value stays within the 4 KiB window)
		for k := r.Range(1, 3); k > 0; k-- {
			b = append(b, 0)
		}
	}
	return ASCIIRaw(b)
}

var makeKeys = []string{"Acer", "Agfa", "Aiptek", "Apple", "Asus", "BenQ", "Canon", "Casio", "DJI", "FujiFilm", "Ge", "Genius",
	"Google", "GoPro", "Hasselblad", "HP", "Hitachi", "HTC", "HUAWEI", "Insta360", "Kodak", "Konica", "Kyocera", "Leica", "LG",
	"Mamyia", "Microsoft", "Minolta", "Motorola", "Nikon", "NIKON CORPORATION", "Nokia", "Olympus", "OnePlus", "Panasonic", "Pentax",
	"PhaseOne", "Polaroid", "RIM", "Ricoh", "Samsung", "Sanyo", "Sharp", "Sigma", "Sony", "SONY", "SonyEricsson", "Toshiba", "Vivitar",
	"Xiamoi", "ZTE", "Hisilicon"}

// documented canonical names by enum order (exif2/ifds/make.go constants)
var makeEnum = map[string]int{"Acer": 1, "Agfa": 2, "Aiptek": 3, "Apple": 4, "Asus": 5, "BenQ": 6, "Canon": 7, "Casio": 8, "DJI": 9,
	"FujiFilm": 10, "Ge": 11, "Genius": 12, "Google": 13, "GoPro": 14, "Hasselblad": 15, "HP": 16, "Hitachi": 17, "HTC": 18, "HUAWEI": 19,
	"Insta360": 20, "Kodak": 21, "Konica": 22, "Kyocera": 23, "Leica": 24, "LG": 25, "Mamyia": 26, "Microsoft": 27, "Minolta": 28,
	"Motorola": 29, "Nikon": 30, "NIKON CORPORATION": 30, "Nokia": 31, "Olympus": 32, "OnePlus": 33, "Panasonic": 34, "Pentax": 35,
	"PhaseOne": 36, "Polaroid": 37, "RIM": 38, "Ricoh": 39, "Samsung": 40, "Sanyo": 41, "Sharp": 42, "Sigma": 43, "Sony": 44, "SONY": 44,
	"SonyEricsson": 45, "Toshiba": 46, "Vivitar": 47, "Xiamoi": 48, "ZTE": 49, "Hisilicon": 50}

var makeCanon = map[int]string{19: "Huawei", 30: "Nikon", 44: "Sony"}

var canonModels = []string{"Canon EOS R5", "Canon EOS R6", "Canon EOS 6D", "Canon EOS 7D", "Canon EOS 80D", "Canon EOS RP", "Canon EOS R",
	"Canon PowerShot G9", "Canon EOS DIGITAL REBEL XT", "Canon EOS 350D DIGITAL", "Canon PowerShot S410", "Canon DIGITAL IXUS 430"}
var appleModels = []string{"iPhone 12", "iPhone 13 Pro", "iPhone 6", "iPhone XS", "iPhone 11 Pro Max", "iPhone SE"}

type dt struct{ Y, M, D, h, m, s int }

func randDT(r *core.Rng) dt {
	y := r.Range(1, 9999)
	if r.Chance(3, 4) {
		y = r.Range(1990, 2035)
	}
	mo := r.Range(1, 12)
	dim := []int{31, 28, 31, 30, 31, 30, 31, 31, 30, 31, 30, 31}[mo-1]
	return dt{y, mo, r.Range(1, dim), r.Range(0, 23), r.Range(0, 59), r.Range(0, 59)}
}

func (d dt) String() string {
	return fmt.Sprintf("%04d:%02d:%02d %02d:%02d:%02d", d.Y, d.M, d.D, d.h, d.m, d.s)
}

func putShortOrLong(r *core.Rng, v uint32, allowLong bool) Val {
	if v <= 0xffff && (!allowLong || r.Bool()) {
		return Short(uint16(v))
	}
	return Long(v)
}

func randRat(r *core.Rng) [2]uint32 {
	var n, d uint32
	switch r.Intn(6) {
	case 0:
		n, d = uint32(r.Range(0, 1000)), uint32(r.Range(1, 1000))
	case 1:
		n, d = 1, uint32(r.Range(1, 8000))
	case 2:
		n, d = uint32(r.Range(0, 300)), []uint32{1, 10, 100, 1000}[r.Intn(4)]
	case 3:
		n, d = r.U32(), uint32(r.Range(1, 1<<20))
	case 4:
		n, d = r.U32(), r.U32()|1
	default:
		n, d = uint32(r.Range(0, 65535)), 1
	}
	return [2]uint32{n, d}
}

func q32(x [2]uint32) float64 { return float64(float32(x[0]) / float32(x[1])) }

// GenExifRec draws a logical record and its expectation.
func GenExifRec(r *core.Rng, o RecOpts) *ExifRec {
	if o.Density == 0 {
		o.Density = r.Pick(15, 35, 60, 90)
	}
	rec := &ExifRec{IFD0: &Dir{Kind: KIFD0}, Exif: &Dir{Kind: KExif}, GPS: &Dir{Kind: KGPS}, Exp: newExpect()}
	e := rec.Exp
	has := func() bool { return r.Intn(100) < o.Density }
	str := func(k string, v string) { e.Exact[k] = []string{"s:" + v}; e.Names = append(e.Names, k) }
	u := func(k string, v uint64) { e.Exact[k] = []string{fmt.Sprintf("u:%d", v)}; e.Names = append(e.Names, k) }

	// ---- IFD0
	// strip location and size: one value per strip, SHORT or LONG; the first one is reported
	for _, f := range []struct {
		tag uint16
		key string
	}{{0x0111, "Exif.StripOffsets"}, {0x0117, "Exif.StripByteCounts"}} {
		if !has() || !r.Chance(1, 2) {
			continue
		}
		n := r.Pick(1, 1, 2, 2, 3)
		huge := r.Chance(1, 30)
		if huge {
			// an image of more than a thousand strips: the table is longer than the 4 KiB window a
			// value is read through; what is reported for it is left open, everything stored behind
			// it must still be reported
			n = r.Pick(1025, 1100, 2049, 3000)
		}
		first := uint32(0)
		if r.Bool() {
			vs := make([]uint16, n)
			for i := range vs {
				vs[i] = uint16(r.Pick(8, 200, 300, 4096, 65535, r.Intn(65536)))
			}
			first = uint32(vs[0])
			rec.IFD0.Add(f.tag, Short(vs...))
		} else {
			vs := make([]uint32, n)
			for i := range vs {
				vs[i] = uint32(r.Pick(8, 70000, 0x7fffffff, 0xffffffff, r.Intn(1<<24)))
			}
			first = vs[0]
			rec.IFD0.Add(f.tag, Long(vs...))
		}
		u(f.key, uint64(first))
		if huge {
			e.Any[f.key] = true
		}
	}
	if has() || o.NikonBigNote {
		mk := randText(r, o)
		if r.Chance(3, 5) {
			mk = makeKeys[r.Intn(len(makeKeys))]
		}
		if o.NikonBigNote {
			mk = "NIKON CORPORATION"
		}
		rec.Make = mk
		rec.IFD0.Add(0x010f, asciiVal(r, mk))
		if en, ok := makeEnum[mk]; ok {
			u("Exif.CameraMake", uint64(en))
			acc := []string{"s:" + mk}
			if c, ok := makeCanon[en]; ok && c != mk {
				acc = append(acc, "s:"+c) // documented alias normalisation
			}
			e.Exact["Exif.Make"] = acc
			e.Names = append(e.Names, "Exif.Make")
		} else {
			str("Exif.Make", mk)
		}
	}
	if has() {
		md := randText(r, o)
		var enum uint64
		acc := []string{"s:" + md}
		switch {
		case rec.Make == "Canon" && r.Chance(2, 3):
			md = canonModels[r.Intn(len(canonModels))]
			m, _ := canon.CameraModelFromString(md)
			enum = uint64(m)
			acc = []string{"s:" + md, "s:" + m.String()}
		case rec.Make == "Apple" && r.Chance(2, 3):
			md = appleModels[r.Intn(len(appleModels))]
			if m, ok := apple.CameraModelFromString(md); ok {
				enum = uint64(m)
				acc = []string{"s:" + md, "s:" + m.String()}
			} else {
				acc = []string{"s:" + md}
			}
		}
		rec.IFD0.Add(0x0110, asciiVal(r, md))
		e.Exact["Exif.Model"] = acc
		e.Names = append(e.Names, "Exif.Model")
		if enum != 0 {
			u("Exif.CameraModel", enum)
		}
	}
	_ = ifds.CameraModelUnknown
	var width, height *uint32
	if has() {
		v := uint32(r.Range(0, 65535))
		width = &v
		rec.IFD0.Add(0x0100, putShortOrLong(r, v, true))
		u("Exif.ImageWidth", uint64(v))
	}
	if has() {
		v := uint32(r.Range(0, 65535))
		height = &v
		rec.IFD0.Add(0x0101, putShortOrLong(r, v, true))
		u("Exif.ImageHeight", uint64(v))
	}
	if r.Chance(1, 12) && !o.NikonBigNote {
		rec.IFD0.Add(0xc612, ByteV(1, byte(r.Pick(1, 3, 4, 6, 7)), byte(r.Pick(0, 0, 1)), 0))
		rec.DNG = true
	}
	if has() {
		v := uint16(r.Range(1, 8))
		if r.Chance(1, 5) {
			v = uint16(r.Intn(65536))
		}
		rec.IFD0.Add(0x0112, Short(v))
		u("Exif.Orientation", uint64(v))
	}
	for _, f := range []struct {
		tag uint16
		key string
	}{{0x010e, "Exif.ImageDescription"}, {0x0131, "Exif.Software"}, {0x8298, "Exif.Copyright"}} {
		if has() {
			s := randText(r, o)
			rec.IFD0.Add(f.tag, asciiVal(r, s))
			str(f.key, s)
		}
	}
	artist, serial := "", ""
	hasArtist, hasSerial := false, false
	if has() {
		artist, hasArtist = randText(r, o), true
		rec.IFD0.Add(0x013b, asciiVal(r, artist))
		str("Exif.Artist", artist)
	}
	if has() {
		serial, hasSerial = randText(r, o), true
		rec.IFD0.Add(0xc62f, asciiVal(r, serial))
		str("Exif.CameraSerial", serial)
	}
	type tsrc struct {
		key    string
		date   *dt
		ms     int
		hasOff bool
		off    int
	}
	times := map[string]*tsrc{"ModifyDate()": {key: "ModifyDate()"}, "DateTimeOriginal()": {key: "DateTimeOriginal()"}, "CreateDate()": {key: "CreateDate()"}}
	if has() {
		d := randDT(r)
		times["ModifyDate()"].date = &d
		rec.IFD0.Add(0x0132, ASCII(d.String()))
	}

	// ---- Exif IFD
	x := rec.Exif
	if r.Chance(1, 6) || (makeEnum[rec.Make] == 30 && r.Chance(2, 3)) || o.NikonBigNote {
		// a maker note: opaque to a reader that does not know the maker's format. For the two makes
		// whose notes the library follows it is kept in that maker's terms: an empty directory
		// (Canon), a note too short to hold Nikon's 18-byte header (Nikon).
		en := makeEnum[rec.Make]
		var note []byte
		switch en {
		case 7: // Canon: an empty directory (count 0, no next directory), the same in both byte orders
			note = []byte{0, 0, 0, 0, 0, 0}
			if r.Chance(1, 3) {
				note = r.Bytes(r.Pick(1, 2, 3, 4)) // a note that lies in the value slot: not an offset to follow
			}
		case 30: // Nikon
			note = r.Bytes(r.Pick(0, 1, 4, 5, 8, 12, 17, 18))
			if r.Bool() || o.NikonBigNote {
				// a type-3 note: "Nikon\0" + version, then a TIFF structure of its own (its own byte
				// order, offsets counted from its own header) with n entries whose values follow it
				n := r.Pick(1, 5, 30, 70, 70)
				if o.NikonBigNote {
					n = r.Pick(76, 79, 80, 81)
				}
				le := r.Bool()
				p16 := func(b []byte, v int) []byte {
					if le {
						return append(b, byte(v), byte(v>>8))
					}
					return append(b, byte(v>>8), byte(v))
				}
				p32 := func(b []byte, v int) []byte {
					if le {
						return append(b, byte(v), byte(v>>8), byte(v>>16), byte(v>>24))
					}
					return append(b, byte(v>>24), byte(v>>16), byte(v>>8), byte(v))
				}
				t := []byte("MM\x00*")
				if le {
					t = []byte("II*\x00")
				}
				t = p32(t, 8)
				t = p16(t, n)
				val := 8 + 2 + 12*n + 4
				for i := 0; i < n; i++ {
					t = p32(p32(p16(p16(t, 1+2*i), 4), 2), val+8*i)
				}
				t = p32(t, 0)
				t = append(t, r.Bytes(8*n)...)
				note = append([]byte("Nikon\x00\x02\x10\x00\x00"), t...)
				rec.NoteTags = n
				// (a plain TIFF with a Nikon type-3 note is a NEF file; other containers keep their type)
			}
		default:
			note = r.Bytes(r.Pick(0, 3, 4, 5, 18, 19, 60, 300))
		}
		x.Add(0x927c, Val{Type: TUndefined, B: note})
		rec.Note = fmt.Sprintf("makernote(make=%q,%d bytes)", rec.Make, len(note))
	}
	if has() {
		v := randRat(r)
		x.Add(0x829a, Rational(v))
		e.F32["Exif.ExposureTime"] = q32(v)
		e.Names = append(e.Names, "Exif.ExposureTime")
	}
	if has() {
		v := randRat(r)
		x.Add(0x829d, Rational(v))
		e.F32["Exif.FNumber"] = q32(v)
		e.Names = append(e.Names, "Exif.FNumber")
		if r.Chance(1, 3) && q32(v) != 0 { // (an f-number of 0 is "absent": the fallback then applies)
			// ApertureValue (APEX) next to FNumber: FNumber is the f-number, the APEX value is only a
			// fallback for files without it, wherever the two values lie in the stream
			x.Add(0x9202, Rational([2]uint32{uint32(r.Range(0, 16000)), uint32(r.Pick(1, 10, 100, 1000))}))
		}
	}
	if has() {
		switch r.Intn(3) {
		case 0:
			v := uint32(r.Range(0, 65535))
			x.Add(0x920a, Short(uint16(v)))
			e.F32["Exif.FocalLength"] = float64(float32(v))
		case 1:
			v := r.U32()
			if r.Bool() {
				v = uint32(r.Range(0, 2000))
			}
			x.Add(0x920a, Long(v))
			e.F32["Exif.FocalLength"] = float64(float32(v))
		default:
			v := randRat(r)
			x.Add(0x920a, Rational(v))
			e.F32["Exif.FocalLength"] = q32(v)
		}
		e.Names = append(e.Names, "Exif.FocalLength")
	}
	for _, f := range []struct {
		tag uint16
		key string
		max int
	}{{0x8822, "Exif.ExposureProgram", 9}, {0x9207, "Exif.MeteringMode", 6}, {0x9209, "Exif.Flash", 95}, {0xa402, "Exif.ExposureMode", 2}} {
		if has() {
			v := uint16(r.Range(0, f.max))
			if r.Chance(1, 4) {
				v = uint16(r.Intn(65536))
			}
			if f.tag == 0x9207 && r.Chance(1, 8) {
				v = 255
			}
			x.Add(f.tag, Short(v))
			u(f.key, uint64(v))
		}
	}
	if has() {
		v := uint32(r.Pick(50, 100, 200, 400, 800, 1600, 3200, 6400, 12800, 25600, 51200, 65535))
		if r.Chance(1, 3) {
			v = r.U32()
		}
		val := putShortOrLong(r, v, true)
		if r.Chance(1, 5) {
			// ISOSpeedRatings has count "any": further values follow the first one (the one reported)
			k := r.Range(1, 3)
			if val.Type == TShort {
				for ; k > 0; k-- {
					val.U16 = append(val.U16, uint16(r.Pick(0, 100, 65535, 7)))
				}
			} else {
				for ; k > 0; k-- {
					val.U32 = append(val.U32, uint32(r.Pick(0, 100, 0xffffffff, 7)))
				}
			}
		}
		x.Add(0x8827, val)
		u("Exif.ISOSpeed", uint64(v))
	}
	if has() {
		n := int8(r.Range(-128, 127))
		if r.Chance(2, 3) {
			n = int8(r.Range(-9, 9))
		}
		d := uint8(r.Range(1, 255))
		if r.Chance(2, 3) {
			d = uint8(r.Pick(1, 2, 3, 6, 10))
		}
		x.Add(0x9204, SRational([2]uint32{uint32(int32(n)), uint32(d)}))
		packed := int16(n)<<8 | int16(d)
		e.Exact["Exif.ExposureBias"] = []string{fmt.Sprintf("i:%d", packed)}
		e.Names = append(e.Names, "Exif.ExposureBias")
	}
	if has() {
		v := uint16(r.Intn(65536))
		x.Add(0xa405, Short(v))
		e.F32["Exif.FocalLengthIn35mmFormat"] = float64(float32(v))
		e.Names = append(e.Names, "Exif.FocalLengthIn35mmFormat")
	}
	if has() {
		var li [8]uint32
		var rats [][2]uint32
		for i := 0; i < 4; i++ {
			q := randRat(r)
			if r.Chance(1, 6) {
				q = [2]uint32{r.U32(), r.U32()}
			}
			li[2*i], li[2*i+1] = q[0], q[1]
			rats = append(rats, q)
		}
		x.Add(0xa432, Rational(rats...))
		e.Exact["Exif.LensInfo"] = []string{obs.Value(li)}
		e.Names = append(e.Names, "Exif.LensInfo")
	}
	for _, f := range []struct {
		tag uint16
		key string
	}{{0xa433, "Exif.LensMake"}, {0xa434, "Exif.LensModel"}, {0xa435, "Exif.LensSerial"}} {
		if has() {
			s := randText(r, o)
			x.Add(f.tag, asciiVal(r, s))
			str(f.key, s)
		}
	}
	// twin sources: emitted only when the IFD0 twin is absent or with the same value
	if r.Chance(1, 4) {
		if !hasArtist {
			s := randText(r, o)
			x.Add(0xa430, asciiVal(r, s))
			str("Exif.Artist", s)
		} else {
			x.Add(0xa430, asciiVal(r, artist))
		}
	}
	if r.Chance(1, 4) {
		if !hasSerial {
			s := randText(r, o)
			x.Add(0xa431, asciiVal(r, s))
			str("Exif.CameraSerial", s)
		} else {
			x.Add(0xa431, asciiVal(r, serial))
		}
	}
	if r.Chance(1, 4) {
		if width == nil {
			v := uint32(r.Range(0, 65535))
			x.Add(0xa002, putShortOrLong(r, v, true))
			u("Exif.ImageWidth", uint64(v))
		} else {
			x.Add(0xa002, putShortOrLong(r, *width, true))
		}
	}
	if r.Chance(1, 4) {
		if height == nil {
			v := uint32(r.Range(0, 65535))
			x.Add(0xa003, putShortOrLong(r, v, true))
			u("Exif.ImageHeight", uint64(v))
		} else {
			x.Add(0xa003, putShortOrLong(r, *height, true))
		}
	}
	if has() {
		d := randDT(r)
		times["DateTimeOriginal()"].date = &d
		x.Add(0x9003, ASCII(d.String()))
	}
	if has() {
		d := randDT(r)
		times["CreateDate()"].date = &d
		x.Add(0x9004, ASCII(d.String()))
	}
	for i, k := range []string{"ModifyDate()", "DateTimeOriginal()", "CreateDate()"} {
		if has() { // SubSecTime*
			nd := r.Range(1, 9)
			if o.Slotty || r.Chance(1, 2) {
				nd = r.Range(1, 3)
			}
			digits := make([]byte, nd)
			for j := range digits {
				digits[j] = byte('0' + r.Intn(10))
			}
			ms := 0
			for j := 0; j < 3; j++ {
				ms *= 10
				if j < nd {
					ms += int(digits[j] - '0')
				}
			}
			times[k].ms = ms
			x.Add(uint16(0x9290+i), ASCII(string(digits)))
		}
		if has() { // OffsetTime*
			hh, mm := r.Range(0, 14), r.Pick(0, 0, 15, 30, 45)
			sign := 1
			if r.Bool() {
				sign = -1
			}
			sc := "+"
			if sign < 0 {
				sc = "-"
			}
			times[k].hasOff = true
			times[k].off = sign * (hh*3600 + mm*60)
			x.Add(uint16(0x9010+i), ASCII(fmt.Sprintf("%s%02d:%02d", sc, hh, mm)))
		}
	}
	for _, ts := range times {
		if ts.date == nil && ts.ms == 0 && !ts.hasOff {
			continue
		}
		y, mo, d, h, mi, s := 1, 1, 1, 0, 0, 0
		if ts.date != nil {
			y, mo, d, h, mi, s = ts.date.Y, ts.date.M, ts.date.D, ts.date.h, ts.date.m, ts.date.s
		}
		loc := time.UTC
		if ts.hasOff {
			loc = time.FixedZone("x", ts.off)
		}
		t := time.Date(y, time.Month(mo), d, h, mi, s, ts.ms*1e6, loc)
		m := obs.Map{}
		obs.PutTime(m, ts.key, t)
		for k, v := range m {
			e.Exact[k] = []string{v}
		}
		e.Names = append(e.Names, ts.key)
	}

	// ---- GPS IFD
	if o.NikonBigNote {
		o.Density = 100 // a complete GPS directory behind the note
	}
	g := rec.GPS
	coord := func(maxDeg int) ([][2]uint32, float64) {
		den := func() uint32 { return uint32(r.Pick(1, 1, 10, 100, 1000, 1000000)) }
		dd, md, sd := den(), den(), den()
		deg := uint32(r.Intn(maxDeg)) * dd
		min := uint32(r.Intn(60)) * md
		sec := uint32(r.Intn(60 * int(sd)))
		if r.Chance(1, 3) { // decimal minutes style: sec 0/1
			sec, sd = 0, 1
			min = uint32(r.Intn(60 * int(md)))
		}
		v := float64(deg)/float64(dd) + float64(min)/float64(md)/60 + float64(sec)/float64(sd)/3600
		return [][2]uint32{{deg, dd}, {min, md}, {sec, sd}}, v
	}
	latNeg, lonNeg, altNeg := false, false, false
	if has() {
		latNeg = r.Bool()
		g.Add(0x0001, ASCII(map[bool]string{false: "N", true: "S"}[latNeg]))
	}
	if has() {
		lonNeg = r.Bool()
		g.Add(0x0003, ASCII(map[bool]string{false: "E", true: "W"}[lonNeg]))
	}
	if has() {
		altNeg = r.Bool()
		g.Add(0x0005, ByteV(map[bool]byte{false: 0, true: 1}[altNeg]))
	}
	sgn := func(neg bool, v float64) float64 {
		if neg {
			return -1 * v
		}
		return v
	}
	if has() {
		rt, v := coord(90)
		g.Add(0x0002, Rational(rt...))
		e.F64["GPS.Latitude()"] = sgn(latNeg, v)
		e.Names = append(e.Names, "GPS.Latitude()")
	} else if latNeg {
		e.F64["GPS.Latitude()"] = math.Copysign(0, -1)
	}
	if has() {
		rt, v := coord(180)
		g.Add(0x0004, Rational(rt...))
		e.F64["GPS.Longitude()"] = sgn(lonNeg, v)
		e.Names = append(e.Names, "GPS.Longitude()")
	} else if lonNeg {
		e.F64["GPS.Longitude()"] = math.Copysign(0, -1)
	}
	if has() {
		q := [2]uint32{uint32(r.Range(0, 9000000)), uint32(r.Pick(1, 10, 100, 1000))}
		g.Add(0x0006, Rational(q))
		e.F32["GPS.Altitude()"] = sgn(altNeg, q32(q))
		e.Names = append(e.Names, "GPS.Altitude()")
	} else if altNeg {
		e.F32["GPS.Altitude()"] = math.Copysign(0, -1)
	}
	gsec, hasGT := 0, false
	if has() {
		hasGT = true
		h, mi := r.Range(0, 23), r.Range(0, 59)
		sd := uint32(r.Pick(1, 1, 10, 100, 1000))
		sn := uint32(r.Intn(60 * int(sd)))
		gsec = h*3600 + mi*60 + int(sn/sd)
		// hours and minutes as whole numbers over any denominator (micro-unit writers use 10^6)
		hd, md := uint32(r.Pick(1, 1, 1, 10, 100, 1000, 100000, 1000000, 100000000)), uint32(r.Pick(1, 1, 1, 10, 100, 1000, 1000000, 60000000))
		g.Add(0x0007, Rational([2]uint32{uint32(h) * hd, hd}, [2]uint32{uint32(mi) * md, md}, [2]uint32{sn, sd}))
	}
	var gdate *dt
	if has() {
		d := randDT(r)
		gdate = &d
		g.Add(0x001d, ASCII(fmt.Sprintf("%04d:%02d:%02d", d.Y, d.M, d.D)))
	}
	if hasGT || gdate != nil {
		y, mo, d := 1, 1, 1
		if gdate != nil {
			y, mo, d = gdate.Y, gdate.M, gdate.D
		}
		t := time.Date(y, time.Month(mo), d, 0, 0, 0, 0, time.UTC).Add(time.Duration(gsec) * time.Second)
		m := obs.Map{}
		obs.PutTime(m, "GPS.Date()", t)
		for k, v := range m {
			e.Exact[k] = []string{v}
		}
		e.Names = append(e.Names, "GPS.Date()")
	}
	rec.HasExif = len(x.Entries) > 0 || r.Chance(1, 10)
	rec.HasGPS = len(g.Entries) > 0 || r.Chance(1, 10)
	return rec
}

// reserved ids: handled by the library's dispatcher of that directory, or structural.
var reservedIDs = map[int]map[uint16]bool{
	KIFD0: {0x010f: true, 0x0110: true, 0x013b: true, 0x8298: true, 0x0100: true, 0x0101: true, 0x0111: true, 0x0117: true,
		0x0112: true, 0x0131: true, 0x010e: true, 0x0132: true, 0xc612: true, 0xc62f: true, 0x014a: true, 0x8769: true, 0x8825: true, 0x02bc: true},
	KExif: {0xa433: true, 0xa434: true, 0xa435: true, 0xa430: true, 0xa431: true, 0xa002: true, 0xa003: true, 0x829a: true, 0x9202: true,
		0x829d: true, 0x8822: true, 0x9204: true, 0xa402: true, 0x9207: true, 0x8827: true, 0x9209: true, 0x920a: true, 0xa405: true, 0xa432: true,
		0x9003: true, 0x9004: true, 0x9290: true, 0x9291: true, 0x9292: true, 0x9010: true, 0x9011: true, 0x9012: true, 0x927c: true},
	KGPS: {0x0001: true, 0x0002: true, 0x0003: true, 0x0004: true, 0x0005: true, 0x0006: true, 0x0007: true, 0x001d: true},
}

// AddForeign interleaves n foreign entries (tags the library does not report) into d.
// invalidTypes also adds entries whose field type is not a TIFF 6.0 type; a conforming reader
// skips them.
func AddForeign(r *core.Rng, d *Dir, n int, bigValues bool, invalidTypes bool) {
	used := map[uint16]bool{}
	for _, e := range d.Entries {
		used[e.Tag] = true
	}
	res := reservedIDs[d.Kind]
	for i := 0; i < n; i++ {
		var tag uint16
		for {
			tag = uint16(r.Intn(65536))
			if r.Chance(1, 2) { // near real tags
				tag = uint16(r.Pick(0x00fe, 0x0102, 0x0103, 0x0106, 0x011a, 0x011b, 0x0128, 0x013e, 0x0201, 0x0202, 0x0213,
					0x9000, 0x9101, 0x9201, 0x9203, 0x9205, 0x9206, 0x9208, 0x9286, 0xa000, 0xa001, 0xa20e, 0xa210, 0xa300, 0xa403, 0xa406, 0xa420,
					0x0000, 0x0008, 0x0009, 0x000b, 0x0010, 0x0012, 0x001b, 0x001f) + r.Intn(2))
			}
			if !used[tag] && !res[tag] {
				break
			}
		}
		used[tag] = true
		var v Val
		cnt := r.Range(0, 12)
		if r.Chance(1, 6) {
			cnt = r.Range(13, 200)
		}
		if bigValues && r.Chance(1, 12) {
			cnt = r.Range(1000, 6000)
		}
		if invalidTypes && r.Chance(1, 6) {
			t := uint16(r.Pick(0, 13, 14, 15, 16, 17, 18, 19, 100, 127, 128, 200, 239, 240, 241, 242, 254, 255, 256, 258, 0x0101, 0x0205, 0x01f0, 0x02f1, 0xff02, 0xffff))
			v = Val{Type: t, Count: uint32(r.Range(0, 5))}
			copy(v.Slot[:], r.Bytes(4))
			switch r.Intn(4) { // a slot that a sloppy reader would take for a plausible offset
			case 0:
				v.Slot = [4]byte{byte(r.Intn(256)), byte(r.Intn(16)), 0, 0}
			case 1:
				v.Slot = [4]byte{0, 0, byte(r.Intn(16)), byte(r.Intn(256))}
			}
			d.Add(tag, v)
			continue
		}
		switch t := r.Pick(1, 2, 3, 4, 5, 6, 7, 8, 9, 10, 11, 12); t {
		case 1, 6, 7:
			v = Val{Type: uint16(t), B: r.Bytes(cnt)}
		case 2:
			b := r.Bytes(cnt)
			for k := range b {
				b[k] = printable[int(b[k])%len(printable)]
			}
			v = ASCIIRaw(append(b, 0))
		case 3, 8:
			u := make([]uint16, cnt)
			for k := range u {
				u[k] = uint16(r.U32())
			}
			v = Val{Type: uint16(t), U16: u}
		case 4, 9, 11:
			u := make([]uint32, cnt)
			for k := range u {
				u[k] = r.U32()
			}
			v = Val{Type: uint16(t), U32: u}
		case 5, 10:
			if cnt > 750 {
				cnt = 750
			}
			u := make([][2]uint32, cnt)
			for k := range u {
				u[k] = [2]uint32{r.U32(), r.U32()}
			}
			v = Val{Type: uint16(t), Rat: u}
		default:
			if cnt > 750 {
				cnt = 750
			}
			u := make([]uint64, cnt)
			for k := range u {
				u[k] = r.U64()
			}
			v = Val{Type: TDouble, U64: u}
		}
		d.Add(tag, v)
	}
}

// Assemble links the three directories (ExifTag / GPSTag pointers) and sorts entries by tag as
// TIFF requires. For CR3 the directories are used separately (no pointers).
func (rec *ExifRec) Assemble(link bool) *Dir {
	if link {
		if rec.HasExif {
			rec.IFD0.AddChild(0x8769, rec.Exif)
		}
		if rec.HasGPS {
			rec.IFD0.AddChild(0x8825, rec.GPS)
		}
	}
	rec.IFD0.Sort()
	rec.Exif.Sort()
	rec.GPS.Sort()
	return rec.IFD0
}

// AddForeignEmbedded adds n foreign entries whose values fit the 4-byte slot (they never become
// pending references), used to reach the 128-entry limit exactly.
func AddForeignEmbedded(r *core.Rng, d *Dir, n int) {
	used := map[uint16]bool{}
	for _, e := range d.Entries {
		used[e.Tag] = true
	}
	res := reservedIDs[d.Kind]
	for i := 0; i < n; i++ {
		var tag uint16
		for {
			tag = uint16(r.Intn(65536))
			if !used[tag] && !res[tag] {
				break
			}
		}
		used[tag] = true
		switch r.Intn(4) {
		case 0:
			d.Add(tag, Short(uint16(r.U32())))
		case 1:
			d.Add(tag, Long(r.U32()))
		case 2:
			d.Add(tag, ByteV(r.Bytes(r.Range(0, 4))...))
		default:
			d.Add(tag, ASCIIRaw(append(r.Bytes(r.Range(0, 3)), 0)))
		}
	}
}

// DropForeignAbove removes the foreign (unknown-id) entries of d that sort behind its last
// known out-of-line entry, so that the entry a reader adds last to its pending table - the one
// that is lost when the table is one slot short - is one whose value the expectation names.
func DropForeignAbove(d *Dir) {
	res := reservedIDs[d.Kind]
	last := -1
	for _, e := range d.Entries {
		if res[e.Tag] && e.Child == nil && len(e.Val.Bytes(binary.LittleEndian)) > 4 && int(e.Tag) > last {
			last = int(e.Tag)
		}
	}
	if last < 0 {
		return
	}
	keep := d.Entries[:0]
	for _, e := range d.Entries {
		if !res[e.Tag] && int(e.Tag) > last {
			continue
		}
		keep = append(keep, e)
	}
	d.Entries = keep
}
