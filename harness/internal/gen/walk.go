package gen

import (
	"encoding/binary"
)

// Field is a structural field found by a walker: a place where a structure-aware mutation
// makes sense (sizes, counts, offsets, type codes, markers).
type Field struct {
	Off   int
	Width int    // 1, 2, 4 or 8 bytes
	Big   bool   // byte order of the field
	Kind  string // "count", "type", "offset", "size", "marker", "tag", "sig"
	Bound int    // a natural bound for the field (remaining length), 0 if unknown
}

// Boundaries returns structure boundaries (for truncation cut points).
func Boundaries(fs []Field) []int {
	seen := map[int]bool{}
	var out []int
	for _, f := range fs {
		for _, p := range []int{f.Off, f.Off + f.Width} {
			if !seen[p] {
				seen[p] = true
				out = append(out, p)
			}
		}
	}
	return out
}

// WalkTIFF walks the IFD structure starting at base (the TIFF header offset).
func WalkTIFF(b []byte, base int) []Field {
	var fs []Field
	if base+8 > len(b) {
		return fs
	}
	var order binary.ByteOrder
	big := false
	switch string(b[base : base+4]) {
	case "II*\x00":
		order = binary.LittleEndian
	case "MM\x00*":
		order, big = binary.BigEndian, true
	default:
		return fs
	}
	fs = append(fs, Field{Off: base, Width: 2, Kind: "sig"}, Field{Off: base + 2, Width: 2, Big: big, Kind: "sig"}, Field{Off: base + 4, Width: 4, Big: big, Kind: "offset", Bound: len(b) - base})
	seen := map[int]bool{}
	var walk func(off int, depth int)
	walk = func(off int, depth int) {
		p := base + off
		if depth > 6 || seen[p] || p < 0 || p+2 > len(b) || len(fs) > 4000 {
			return
		}
		seen[p] = true
		n := int(order.Uint16(b[p:]))
		fs = append(fs, Field{Off: p, Width: 2, Big: big, Kind: "count", Bound: (len(b) - p) / 12})
		p += 2
		if n > 300 {
			n = 300
		}
		for i := 0; i < n && p+12 <= len(b); i++ {
			tag := order.Uint16(b[p:])
			typ := order.Uint16(b[p+2:])
			cnt := order.Uint32(b[p+4:])
			val := order.Uint32(b[p+8:])
			fs = append(fs, Field{Off: p, Width: 2, Big: big, Kind: "tag"}, Field{Off: p + 2, Width: 2, Big: big, Kind: "type"},
				Field{Off: p + 4, Width: 4, Big: big, Kind: "count", Bound: len(b) - base}, Field{Off: p + 8, Width: 4, Big: big, Kind: "offset", Bound: len(b) - base})
			sz := typeSize[typ] * int(cnt)
			if sz > 4 && int(val) > 0 && base+int(val) < len(b) {
				// first bytes of the out-of-line value are a boundary of interest
				fs = append(fs, Field{Off: base + int(val), Width: 1, Kind: "value", Bound: sz})
			}
			switch tag {
			case 0x8769, 0x8825, 0xa005:
				walk(int(val), depth+1)
			case 0x014a:
				if cnt == 1 {
					walk(int(val), depth+1)
				} else if base+int(val)+4*int(cnt) <= len(b) && cnt < 8 {
					for k := 0; k < int(cnt); k++ {
						walk(int(order.Uint32(b[base+int(val)+4*k:])), depth+1)
					}
				}
			}
			p += 12
		}
		if p+4 <= len(b) {
			fs = append(fs, Field{Off: p, Width: 4, Big: big, Kind: "offset", Bound: len(b) - base})
			if nx := int(order.Uint32(b[p:])); nx != 0 {
				walk(nx, depth+1)
			}
		}
	}
	walk(int(order.Uint32(b[base+4:])), 0)
	return fs
}

// WalkJPEG walks marker segments up to the first SOS or 200 segments; Exif payloads are walked
// as TIFF.
func WalkJPEG(b []byte) []Field {
	var fs []Field
	if len(b) < 4 || b[0] != 0xFF || b[1] != 0xD8 {
		return fs
	}
	fs = append(fs, Field{Off: 0, Width: 2, Big: true, Kind: "marker"})
	p := 2
	for n := 0; n < 200 && p+4 <= len(b); n++ {
		if b[p] != 0xFF {
			break
		}
		m := b[p+1]
		fs = append(fs, Field{Off: p + 1, Width: 1, Kind: "marker"})
		if m == 0xD8 || m == 0xD9 || (m >= 0xD0 && m <= 0xD7) || m == 0x01 {
			p += 2
			continue
		}
		l := int(binary.BigEndian.Uint16(b[p+2:]))
		fs = append(fs, Field{Off: p + 2, Width: 2, Big: true, Kind: "size", Bound: len(b) - p})
		if m == 0xE1 && p+10 <= len(b) && string(b[p+4:p+10]) == ExifPrefix {
			fs = append(fs, WalkTIFF(b, p+10)...)
		}
		if m == 0xDA {
			break
		}
		p += 2 + l
	}
	return fs
}

var containerBoxes = map[string]int{"moov": 0, "trak": 0, "mdia": 0, "minf": 0, "stbl": 0, "dinf": 0, "iprp": 0, "ipco": 0, "meta": 4, "iref": 4, "iinf": 6, "grpl": 0}

// WalkBMFF walks the box tree.
func WalkBMFF(b []byte) []Field {
	var fs []Field
	var walk func(from, to, depth int)
	walk = func(from, to, depth int) {
		p := from
		for n := 0; n < 400 && p+8 <= to && len(fs) < 6000; n++ {
			sz := int(binary.BigEndian.Uint32(b[p:]))
			typ := string(b[p+4 : p+8])
			fs = append(fs, Field{Off: p, Width: 4, Big: true, Kind: "size", Bound: to - p}, Field{Off: p + 4, Width: 4, Big: true, Kind: "type"})
			hdr := 8
			if sz == 1 && p+16 <= to {
				fs = append(fs, Field{Off: p + 8, Width: 8, Big: true, Kind: "size", Bound: to - p})
				sz = int(binary.BigEndian.Uint64(b[p+8:]))
				hdr = 16
			}
			if sz < hdr || p+sz > to {
				return
			}
			if skip, ok := containerBoxes[typ]; ok && depth < 8 {
				walk(p+hdr+skip, p+sz, depth+1)
			} else if typ == "uuid" && p+hdr+16 <= p+sz {
				u := string(b[p+hdr : p+hdr+16])
				if u == string(UUIDCanonMeta) {
					walk(p+hdr+16, p+sz, depth+1)
				} else if u == string(UUIDPreview) {
					walk(p+hdr+24, p+sz, depth+1)
				}
			} else if typ == "CMT1" || typ == "CMT2" || typ == "CMT3" || typ == "CMT4" {
				fs = append(fs, WalkTIFF(b[:p+sz], p+hdr)...)
			} else if typ == "iloc" || typ == "infe" || typ == "pitm" || typ == "hdlr" || typ == "ipma" || typ == "PRVW" || typ == "CTBO" || typ == "ftyp" || typ == "idat" {
				// every 2-byte word of the first 40 payload bytes is a candidate count / size
				for q := p + hdr; q+2 <= p+sz && q < p+hdr+40; q += 2 {
					fs = append(fs, Field{Off: q, Width: 2, Big: true, Kind: "count", Bound: sz})
				}
			}
			p += sz
		}
	}
	walk(0, len(b), 0)
	return fs
}

// WalkPNG walks chunks.
func WalkPNG(b []byte) []Field {
	var fs []Field
	if len(b) < 8 || string(b[:8]) != "\x89PNG\r\n\x1a\n" {
		return fs
	}
	fs = append(fs, Field{Off: 0, Width: 8, Big: true, Kind: "sig"})
	p := 8
	for n := 0; n < 300 && p+8 <= len(b); n++ {
		l := int(binary.BigEndian.Uint32(b[p:]))
		fs = append(fs, Field{Off: p, Width: 4, Big: true, Kind: "size", Bound: len(b) - p}, Field{Off: p + 4, Width: 4, Big: true, Kind: "type"})
		if string(b[p+4:p+8]) == "eXIf" && p+8+l <= len(b) {
			fs = append(fs, WalkTIFF(b[:p+8+l], p+8)...)
		}
		p += 12 + l
		if p < 0 {
			break
		}
	}
	return fs
}

// WalkAny picks a walker from the file's first bytes; for unknown or TIFF-in-something files
// it looks for a TIFF signature.
func WalkAny(b []byte) []Field {
	switch {
	case len(b) >= 2 && b[0] == 0xFF && b[1] == 0xD8:
		return WalkJPEG(b)
	case len(b) >= 8 && string(b[:4]) == "\x89PNG":
		return WalkPNG(b)
	case len(b) >= 8 && string(b[4:8]) == "ftyp":
		fs := WalkBMFF(b)
		if i := FirstTIFFSig(b); i >= 0 {
			fs = append(fs, WalkTIFF(b, i)...)
		}
		return fs
	}
	if i := FirstTIFFSig(b); i >= 0 && i < 1<<16 {
		return WalkTIFF(b, i)
	}
	return nil
}

// PutField writes v into the field.
func PutField(b []byte, f Field, v uint64) {
	if f.Off < 0 || f.Off+f.Width > len(b) {
		return
	}
	var o binary.ByteOrder = binary.LittleEndian
	if f.Big {
		o = binary.BigEndian
	}
	switch f.Width {
	case 1:
		b[f.Off] = byte(v)
	case 2:
		o.PutUint16(b[f.Off:], uint16(v))
	case 4:
		o.PutUint32(b[f.Off:], uint32(v))
	case 8:
		o.PutUint64(b[f.Off:], v)
	}
}

// GetField reads the field.
func GetField(b []byte, f Field) uint64 {
	if f.Off < 0 || f.Off+f.Width > len(b) {
		return 0
	}
	var o binary.ByteOrder = binary.LittleEndian
	if f.Big {
		o = binary.BigEndian
	}
	switch f.Width {
	case 1:
		return uint64(b[f.Off])
	case 2:
		return uint64(o.Uint16(b[f.Off:]))
	case 4:
		return uint64(o.Uint32(b[f.Off:]))
	case 8:
		return o.Uint64(b[f.Off:])
	}
	return 0
}
