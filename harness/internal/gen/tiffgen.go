// Package gen holds the generators: well-formed files built from a logical record (the ground
// truth the oracles compare against), structure walkers and structure-aware malformations.
package gen

import (
	"encoding/binary"
	"sort"

	"verif/harness/internal/core"
)

// TIFF field types
const (
	TByte      = 1
	TASCII     = 2
	TShort     = 3
	TLong      = 4
	TRational  = 5
	TSByte     = 6
	TUndefined = 7
	TSShort    = 8
	TSLong     = 9
	TSRational = 10
	TFloat     = 11
	TDouble    = 12
)

var typeSize = map[uint16]int{1: 1, 2: 1, 3: 2, 4: 4, 5: 8, 6: 1, 7: 1, 8: 2, 9: 4, 10: 8, 11: 4, 12: 8}

// Val is a typed TIFF value, independent of byte order.
type Val struct {
	Type  uint16
	B     []byte      // types 1,2,6,7 (for ASCII: includes the terminating NUL)
	U16   []uint16    // 3,8
	U32   []uint32    // 4,9,11
	Rat   [][2]uint32 // 5,10
	U64   []uint64    // 12
	Count uint32      // explicit count for invalid types (value slot = Slot)
	Slot  [4]byte     // raw value slot for invalid-type entries
}

func (v Val) N() uint32 {
	switch v.Type {
	case 1, 2, 6, 7:
		return uint32(len(v.B))
	case 3, 8:
		return uint32(len(v.U16))
	case 4, 9, 11:
		return uint32(len(v.U32))
	case 5, 10:
		return uint32(len(v.Rat))
	case 12:
		return uint32(len(v.U64))
	}
	return v.Count
}

// Valid reports whether the type is one of the twelve TIFF 6.0 field types.
func (v Val) Valid() bool { _, ok := typeSize[v.Type]; return ok }

func (v Val) Bytes(bo binary.ByteOrder) []byte {
	switch v.Type {
	case 1, 2, 6, 7:
		return append([]byte(nil), v.B...)
	case 3, 8:
		out := make([]byte, 2*len(v.U16))
		for i, x := range v.U16 {
			bo.PutUint16(out[2*i:], x)
		}
		return out
	case 4, 9, 11:
		out := make([]byte, 4*len(v.U32))
		for i, x := range v.U32 {
			bo.PutUint32(out[4*i:], x)
		}
		return out
	case 5, 10:
		out := make([]byte, 8*len(v.Rat))
		for i, x := range v.Rat {
			bo.PutUint32(out[8*i:], x[0])
			bo.PutUint32(out[8*i+4:], x[1])
		}
		return out
	case 12:
		out := make([]byte, 8*len(v.U64))
		for i, x := range v.U64 {
			bo.PutUint64(out[8*i:], x)
		}
		return out
	}
	return nil
}

func ASCII(s string) Val           { return Val{Type: TASCII, B: append([]byte(s), 0)} }
func ASCIIRaw(b []byte) Val        { return Val{Type: TASCII, B: b} }
func Short(x ...uint16) Val        { return Val{Type: TShort, U16: x} }
func Long(x ...uint32) Val         { return Val{Type: TLong, U32: x} }
func Rational(x ...[2]uint32) Val  { return Val{Type: TRational, Rat: x} }
func SRational(x ...[2]uint32) Val { return Val{Type: TSRational, Rat: x} }
func ByteV(x ...byte) Val          { return Val{Type: TByte, B: x} }
func Undefined(b []byte) Val       { return Val{Type: TUndefined, B: b} }

// Dir kinds
const (
	KIFD0 = iota
	KExif
	KGPS
	KIFD1
	KOther
)

type Entry struct {
	Tag   uint16
	Val   Val
	Child *Dir // the value is the offset of this directory (LONG x1)
}

type Dir struct {
	Kind    int
	Entries []Entry
	Next    *Dir // next-IFD chain (IFD0 -> IFD1)
}

func (d *Dir) Add(tag uint16, v Val) { d.Entries = append(d.Entries, Entry{Tag: tag, Val: v}) }
func (d *Dir) AddChild(tag uint16, c *Dir) {
	d.Entries = append(d.Entries, Entry{Tag: tag, Val: Long(0), Child: c})
}
func (d *Dir) Sort() {
	sort.SliceStable(d.Entries, func(i, j int) bool { return d.Entries[i].Tag < d.Entries[j].Tag })
}

// Layout parameters for serialisation.
type Layout struct {
	Big       bool // byte order
	FirstOff  int  // offset of the first directory (>= 8)
	MaxPad    int  // padding between blocks: 0..MaxPad
	Order     int  // 0 = depth-first typical, 1 = values first then sub-dirs, 2 = random topological
	R         *core.Rng
	PadByte   byte
	RandomPad bool
	MinLen    int // trailing padding up to this length (the library's header search needs 32 bytes)
	// SlotFill: the bytes of a 4-byte value slot that an embedded value does not use (a single
	// SHORT, a BYTE, a short string) hold arbitrary non-zero bytes instead of zeros; TIFF leaves
	// them undefined.
	SlotFill bool
	// NoteTags: the MakerNote value (tag 0x927c) is a directory of this many out-of-line entries
	// that the library follows (a Nikon type-3 note); only the pending-table model uses it.
	NoteTags int
}

type block struct {
	dir   *Dir
	owner *Dir // for value blocks: directory that references it
	ei    int  // entry index in owner
	data  []byte
	off   int
}

// Built is a serialised TIFF plus what the oracle needs to know about it.
type Built struct {
	Bytes       []byte
	Big         bool
	FirstOff    int
	MaxPending  int // maximum of the library-style pending-tag count along the stream (conservative)
	MaxEntries  int
	NBlocks     int
	DirOffsets  map[*Dir]int
	ValueRanges [][2]int // [off,len) of out-of-line values
}

func bo(big bool) binary.ByteOrder {
	if big {
		return binary.BigEndian
	}
	return binary.LittleEndian
}

// BuildTIFF serialises the directory tree rooted at root in a forward layout: every directory
// precedes the values and sub-directories it references.
func BuildTIFF(root *Dir, L Layout) Built {
	order := bo(L.Big)
	r := L.R
	if L.FirstOff < 8 {
		L.FirstOff = 8
	}
	// collect blocks lazily: placing a directory makes its dependants ready
	var placed []*block
	ready := []*block{{dir: root}}
	dirBlock := map[*Dir]*block{}
	valBlock := map[*Dir]map[int]*block{}
	pos := L.FirstOff
	first := true
	for len(ready) > 0 {
		var pick int
		switch L.Order {
		case 0:
			pick = 0 // FIFO within what the last directory exposed first (values, then children)
		case 1:
			pick = 0
		default:
			pick = r.Intn(len(ready))
		}
		b := ready[pick]
		ready = append(ready[:pick], ready[pick+1:]...)
		if !first && L.MaxPad > 0 {
			pos += r.Intn(L.MaxPad + 1)
		}
		first = false
		b.off = pos
		if b.dir != nil {
			d := b.dir
			dirBlock[d] = b
			size := 2 + 12*len(d.Entries) + 4
			pos += size
			var vals, kids []*block
			for i, e := range d.Entries {
				if e.Child != nil {
					kids = append(kids, &block{dir: e.Child})
					continue
				}
				if !e.Val.Valid() {
					continue
				}
				data := e.Val.Bytes(order)
				if len(data) > 4 {
					vb := &block{owner: d, ei: i, data: data}
					if valBlock[d] == nil {
						valBlock[d] = map[int]*block{}
					}
					valBlock[d][i] = vb
					vals = append(vals, vb)
				}
			}
			if d.Next != nil {
				kids = append(kids, &block{dir: d.Next})
			}
			switch L.Order {
			case 0: // typical camera layout: values of this dir, then its children (depth-first)
				ready = append(append(vals, kids...), ready...)
			case 1: // children first, values afterwards
				ready = append(append(kids, vals...), ready...)
			default:
				ready = append(ready, vals...)
				ready = append(ready, kids...)
			}
		} else {
			pos += len(b.data)
		}
		placed = append(placed, b)
	}
	total := pos
	if total < L.MinLen {
		total = L.MinLen
	}
	out := make([]byte, total)
	if L.RandomPad {
		copy(out, r.Bytes(total))
	} else if L.PadByte != 0 {
		for i := range out {
			out[i] = L.PadByte
		}
	}
	if L.Big {
		copy(out, "MM\x00*")
	} else {
		copy(out, "II*\x00")
	}
	order.PutUint32(out[4:], uint32(L.FirstOff))
	res := Built{Big: L.Big, FirstOff: L.FirstOff, NBlocks: len(placed), DirOffsets: map[*Dir]int{}}
	for _, b := range placed {
		if b.dir == nil {
			copy(out[b.off:], b.data)
			res.ValueRanges = append(res.ValueRanges, [2]int{b.off, len(b.data)})
			continue
		}
		d := b.dir
		res.DirOffsets[d] = b.off
		if len(d.Entries) > res.MaxEntries {
			res.MaxEntries = len(d.Entries)
		}
		p := b.off
		order.PutUint16(out[p:], uint16(len(d.Entries)))
		p += 2
		for i, e := range d.Entries {
			order.PutUint16(out[p:], e.Tag)
			order.PutUint16(out[p+2:], e.Val.Type)
			switch {
			case e.Child != nil:
				order.PutUint16(out[p+2:], TLong)
				order.PutUint32(out[p+4:], 1)
				order.PutUint32(out[p+8:], uint32(dirBlock[e.Child].off))
			case !e.Val.Valid():
				order.PutUint32(out[p+4:], e.Val.Count)
				copy(out[p+8:p+12], e.Val.Slot[:])
			default:
				order.PutUint32(out[p+4:], e.Val.N())
				data := e.Val.Bytes(order)
				if len(data) > 4 {
					order.PutUint32(out[p+8:], uint32(valBlock[d][i].off))
				} else {
					for k := 0; k < 4; k++ {
						out[p+8+k] = 0
						if L.SlotFill && r != nil {
							out[p+8+k] = byte(1 + r.Intn(255))
						}
					}
					copy(out[p+8:], data)
				}
			}
			p += 12
		}
		if d.Next != nil {
			order.PutUint32(out[p:], uint32(dirBlock[d.Next].off))
		} else {
			order.PutUint32(out[p:], 0)
		}
	}
	res.Bytes = out
	res.MaxPending = simulatePending(placed, dirBlock, valBlock, L.NoteTags)
	return res
}

// simulatePending walks the stream the way a forward-only reader has to and returns a
// conservative upper bound of simultaneously pending out-of-line references (counting, like a
// reader with a simple array does, references already consumed since the last sub-directory).
func simulatePending(placed []*block, dirBlock map[*Dir]*block, valBlock map[*Dir]map[int]*block, noteTags int) int {
	sorted := append([]*block(nil), placed...)
	sort.Slice(sorted, func(i, j int) bool { return sorted[i].off < sorted[j].off })
	held, consumed, max := 0, 0, 0
	enter := func(first bool) {
		// entering a directory: a compacting reader drops consumed references here; the pointer
		// to the directory itself is the current reference and keeps its slot until the next
		// compaction
		if !first {
			held -= consumed
			consumed = 1
		}
	}
	skipped := map[*Dir]bool{} // a chained directory the reader never visits: neither entered nor its values pending
	for _, b := range sorted {
		if (b.dir != nil && skipped[b.dir]) || (b.dir == nil && b.owner != nil && skipped[b.owner]) {
			continue
		}
		if b.dir == nil {
			if noteTags > 0 && b.owner != nil && b.owner.Entries[b.ei].Tag == 0x927c {
				// a maker note the reader follows: a directory whose values lie inside the note
				enter(false)
				held += noteTags
				if held > max {
					max = held
				}
				consumed += noteTags
				continue
			}
			consumed++
			continue
		}
		enter(b == sorted[0])
		d := b.dir
		for i, e := range d.Entries {
			if e.Child != nil {
				held++
			} else if _, ok := valBlock[d][i]; ok {
				held++
			}
			if held > max {
				max = held
			}
		}
		if d.Next != nil && b == sorted[0] && held >= 2 {
			skipped[d.Next] = true
		}
		if d.Next != nil && (b != sorted[0] || held < 2) {
			// the pointer to a chained directory takes a slot - but the reader looks at it (in the
			// first directory) only when fewer than two references are pending after the entries
			held++
			if held > max {
				max = held
			}
		}
	}
	return max
}
