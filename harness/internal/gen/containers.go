package gen

import (
	"bytes"
	"encoding/binary"
	"hash/crc32"

	"verif/harness/internal/core"
)

// ---------------------------------------------------------------- JPEG

// Seg is one JPEG marker segment as the generator wrote it (the ground truth for C10).
type Seg struct {
	Marker  byte   // second marker byte
	Payload []byte // bytes after the 2-byte length field
	Kind    string // "exif", "xmp", "other"
	Off     int    // absolute offset of the 0xFF byte (filled by BuildJPEG)
	Fill    int    // number of 0xFF fill bytes in front of the marker (T.81 B.1.1.2 allows any number)
}

const ExifPrefix = "Exif\x00\x00"
const XMPPrefix = "http://ns.adobe.com/xap/1.0/\x00"

func ExifSeg(tiff []byte) Seg {
	return Seg{Marker: 0xE1, Payload: append([]byte(ExifPrefix), tiff...), Kind: "exif"}
}
func XMPSeg(packet []byte) Seg {
	return Seg{Marker: 0xE1, Payload: append([]byte(XMPPrefix), packet...), Kind: "xmp"}
}

// JPEG is a generated marker stream.
type JPEG struct {
	Bytes   []byte
	Segs    []Seg
	TailOff int // offset of the first table segment (DQT/DHT) that ends metadata scanning
}

// hostilePayload returns payload bytes full of things a sloppy scanner would trip over.
func hostilePayload(r *core.Rng, n int) []byte {
	b := r.Bytes(n)
	for i := 0; i+4 < n; i++ {
		switch r.Intn(24) {
		case 0:
			b[i] = 0xFF
		case 1:
			b[i], b[i+1] = 0xFF, 0xD8
		case 2:
			b[i], b[i+1] = 0xFF, 0xD9
		case 3:
			b[i], b[i+1] = 0xFF, 0xE1
		case 4:
			b[i], b[i+1] = 0xFF, 0xDB
		}
	}
	return b
}

// HostilePayload is hostilePayload for other packages.
func HostilePayload(r *core.Rng, n int) []byte { return hostilePayload(r, n) }

// RandOtherSeg draws a non-metadata segment.
func RandOtherSeg(r *core.Rng, maxLen int) Seg {
	n := r.Range(0, 40)
	switch r.Intn(10) {
	case 0:
		n = r.Range(41, 600)
	case 1:
		n = r.Range(601, maxLen)
	}
	if n > maxLen {
		n = maxLen
	}
	pad64 := func(b []byte) []byte { return b }
	switch r.Intn(12) {
	case 0: // JFIF
		p := append([]byte("JFIF\x00\x01\x02\x00\x00\x48\x00\x48\x00\x00"), hostilePayload(r, r.Range(0, 20))...)
		return Seg{Marker: 0xE0, Payload: p, Kind: "other"}
	case 1: // JFXX
		return Seg{Marker: 0xE0, Payload: append([]byte("JFXX\x00\x10"), hostilePayload(r, n)...), Kind: "other"}
	case 2: // ICC
		return Seg{Marker: 0xE2, Payload: append([]byte("ICC_PROFILE\x00\x01\x01"), hostilePayload(r, n)...), Kind: "other"}
	case 3: // Photoshop
		return Seg{Marker: 0xED, Payload: append([]byte("Photoshop 3.0\x008BIM"), hostilePayload(r, n)...), Kind: "other"}
	case 4: // XMP extension (not supported by the library: must be ignored)
		return Seg{Marker: 0xE1, Payload: append([]byte("http://ns.adobe.com/xmp/extension/\x00"), hostilePayload(r, n)...), Kind: "other"}
	case 5: // Exif-looking prefix on the wrong marker
		m := byte(0xE0 + r.Pick(0, 2, 3, 5, 9, 13, 14, 15))
		return Seg{Marker: m, Payload: append([]byte(ExifPrefix+"II*\x00\x08\x00\x00\x00"), hostilePayload(r, n)...), Kind: "other"}
	case 6: // XMP-looking prefix on the wrong marker
		m := byte(0xE0 + r.Pick(0, 2, 4, 11, 13))
		return Seg{Marker: m, Payload: append([]byte(XMPPrefix+"<x:xmpmeta>"), hostilePayload(r, n)...), Kind: "other"}
	case 7: // COM
		return Seg{Marker: 0xFE, Payload: pad64(hostilePayload(r, n)), Kind: "other"}
	case 8: // DRI (always 4 bytes incl. length => 2 payload bytes)
		return Seg{Marker: 0xDD, Payload: r.Bytes(2), Kind: "other"}
	case 9: // SOF
		m := byte(r.Pick(0xC0, 0xC1, 0xC2, 0xC3, 0xC5, 0xC6, 0xC7, 0xC9, 0xCA, 0xCB, 0xCD, 0xCE, 0xCF))
		nc := r.Range(1, 4)
		p := []byte{8, byte(r.Intn(256)), byte(r.Intn(256)), byte(r.Intn(256)), byte(r.Intn(256)), byte(nc)}
		p = append(p, r.Bytes(3*nc)...)
		return Seg{Marker: m, Payload: p, Kind: "other"}
	case 10: // APP1 with a near-miss prefix
		pre := []byte(ExifPrefix)
		pre[r.Intn(len(pre))] ^= byte(1 << uint(r.Intn(8)))
		return Seg{Marker: 0xE1, Payload: append(pre, hostilePayload(r, n)...), Kind: "other"}
	default:
		m := byte(0xE0 + r.Intn(16))
		p := hostilePayload(r, n)
		if m == 0xE1 && len(p) >= 6 {
			copy(p, "NotExi") // never an accidental Exif/XMP prefix
		}
		return Seg{Marker: m, Payload: p, Kind: "other"}
	}
}

// BuildJPEG writes SOI, the segments, a DQT (or DHT) table segment and tail bytes of scan data.
func BuildJPEG(r *core.Rng, segs []Seg, tail int) JPEG {
	var b bytes.Buffer
	b.Write([]byte{0xFF, 0xD8})
	out := JPEG{}
	for _, s := range segs {
		if len(s.Payload) > 65533 { // the length field holds len+2 in 16 bits
			s.Payload = s.Payload[:65533]
		}
		for k := 0; k < s.Fill; k++ {
			b.WriteByte(0xFF)
		}
		s.Off = b.Len()
		b.Write([]byte{0xFF, s.Marker})
		var l [2]byte
		binary.BigEndian.PutUint16(l[:], uint16(len(s.Payload)+2))
		b.Write(l[:])
		b.Write(s.Payload)
		out.Segs = append(out.Segs, s)
	}
	out.TailOff = b.Len()
	// quantisation table (65 bytes payload) then SOF0, DHT, SOS-like data
	b.Write([]byte{0xFF, 0xDB, 0x00, 0x43, 0x00})
	b.Write(r.Bytes(64))
	if tail < 64 {
		tail = 64
	}
	t := r.Bytes(tail)
	for i := range t {
		if t[i] == 0xFF {
			t[i] = 0xFE
		}
	}
	b.Write(t)
	b.Write([]byte{0xFF, 0xD9})
	out.Bytes = b.Bytes()
	return out
}

// ---------------------------------------------------------------- PNG

type PNGChunk struct {
	Type string
	Data []byte
	Off  int // offset of the length field
}

type PNG struct {
	Bytes   []byte
	Chunks  []PNGChunk
	ExifOff int // offset of the eXIf chunk data, -1 if none
}

func BuildPNG(r *core.Rng, exif []byte, before, after int) PNG {
	var b bytes.Buffer
	b.WriteString("\x89PNG\r\n\x1a\n")
	out := PNG{ExifOff: -1}
	put := func(typ string, data []byte) {
		c := PNGChunk{Type: typ, Data: data, Off: b.Len()}
		var l [4]byte
		binary.BigEndian.PutUint32(l[:], uint32(len(data)))
		b.Write(l[:])
		b.WriteString(typ)
		if typ == "eXIf" {
			out.ExifOff = b.Len()
		}
		b.Write(data)
		crc := crc32.NewIEEE()
		crc.Write([]byte(typ))
		crc.Write(data)
		binary.BigEndian.PutUint32(l[:], crc.Sum32())
		b.Write(l[:])
		out.Chunks = append(out.Chunks, c)
	}
	ihdr := make([]byte, 13)
	binary.BigEndian.PutUint32(ihdr[0:], uint32(r.Range(1, 4000)))
	binary.BigEndian.PutUint32(ihdr[4:], uint32(r.Range(1, 4000)))
	ihdr[8], ihdr[9] = 8, 2
	put("IHDR", ihdr)
	anc := []string{"gAMA", "cHRM", "sRGB", "iCCP", "tEXt", "zTXt", "iTXt", "bKGD", "pHYs", "sBIT", "tIME", "sPLT", "hIST", "prVt", "eXIF", "exIf"}
	for i := 0; i < before; i++ {
		n := r.Range(0, 60)
		if r.Chance(1, 8) {
			n = r.Range(61, 5000)
		}
		put(anc[r.Intn(len(anc))], r.Bytes(n))
	}
	// eXIf may stand anywhere between IHDR and IEND except between consecutive IDAT chunks
	idatFirst := r.Chance(1, 3)
	idat := func() {
		for k := r.Pick(1, 1, 2, 3); k > 0; k-- {
			put("IDAT", r.Bytes(r.Range(64, 600)))
		}
	}
	if idatFirst {
		idat()
		for i := r.Intn(3); i > 0; i-- {
			put(anc[r.Intn(len(anc))], r.Bytes(r.Range(0, 60)))
		}
	}
	if exif != nil {
		put("eXIf", exif)
	}
	for i := 0; i < after; i++ {
		put(anc[r.Intn(len(anc))], r.Bytes(r.Range(0, 60)))
	}
	if !idatFirst {
		idat()
	}
	put("IEND", nil)
	out.Bytes = b.Bytes()
	return out
}

// ScrubTIFFSig overwrites accidental TIFF signatures ("II*\0", "MM\0*") in b[from:to).
func ScrubTIFFSig(b []byte, from, to int) {
	if to > len(b) {
		to = len(b)
	}
	for i := from; i+4 <= to; i++ {
		if (b[i] == 'I' && b[i+1] == 'I' && b[i+2] == '*' && b[i+3] == 0) || (b[i] == 'M' && b[i+1] == 'M' && b[i+2] == 0 && b[i+3] == '*') {
			b[i+1] = 'x'
		}
	}
}

// FirstTIFFSig returns the index of the first TIFF signature in b, or -1.
func FirstTIFFSig(b []byte) int {
	for i := 0; i+4 <= len(b); i++ {
		if (b[i] == 'I' && b[i+1] == 'I' && b[i+2] == '*' && b[i+3] == 0) || (b[i] == 'M' && b[i+1] == 'M' && b[i+2] == 0 && b[i+3] == '*') {
			return i
		}
	}
	return -1
}
