package gen

import (
	"fmt"

	"verif/harness/internal/core"
)

var specials = []uint64{0, 1, 2, 3, 4, 5, 6, 7, 8, 9, 12, 15, 16, 17, 20, 23, 24, 31, 32, 63, 64, 83, 84, 85, 86, 127, 128, 129, 255, 256, 1023, 1024, 1025,
	4095, 4096, 4097, 0x7fff, 0x8000, 0xffff, 0x10000, 0x7fffffff, 0x80000000, 0xfffffffe, 0xffffffff, 0x100000000, 0x7fffffffffffffff, 0xffffffffffffffff}

// wraps are 32-bit counts whose product with a unit size of 2, 3, 4, 8 or 12 wraps around to a
// small number (size arithmetic done in 32 bits then sees a short value with a huge count).
var wraps = []uint64{0x80000000, 0x80000001, 0x80000002, 0x40000000, 0x40000001, 0x40000002, 0x40000003, 0x40000005, 0x20000000, 0x20000001, 0x20000002,
	0x55555556, 0x55555557, 0x15555556, 0xc0000001, 0xc0000002, 0xa0000001, 0x60000001, 0xfffffff1, 0xfffffff8}

// MutateField applies one structure-aware change at a walker-found field.
func MutateField(r *core.Rng, b []byte, f Field) string {
	old := GetField(b, f)
	var v uint64
	switch r.Intn(8) {
	case 0, 1, 2:
		v = specials[r.Intn(len(specials))]
	case 3:
		v = old + 1
	case 4:
		v = old - 1
	case 5:
		if f.Bound > 0 {
			v = uint64(f.Bound + r.Pick(-2, -1, 0, 1, 2, 8))
		} else {
			v = old ^ 0x80
		}
	case 6:
		v = old ^ (1 << uint(r.Intn(8*f.Width)))
	default:
		v = r.U64()
	}
	if (f.Kind == "count" || f.Kind == "size") && f.Width >= 4 && r.Chance(1, 6) {
		v = wraps[r.Intn(len(wraps))]
	}
	if f.Kind == "type" && f.Width == 2 && r.Chance(2, 3) {
		v = uint64(r.Pick(0, 1, 2, 3, 4, 5, 6, 7, 8, 9, 10, 11, 12, 13, 129, 240, 241, 255, 0x0102, 0xf102))
	}
	PutField(b, f, v)
	return fmt.Sprintf("%s@%d/%d:%d->%d", f.Kind, f.Off, f.Width, old, v)
}

// Mutate returns a mutated copy of b and a description. nops operators are applied.
func Mutate(r *core.Rng, src []byte, fields []Field, nops int) ([]byte, string) {
	b := append([]byte(nil), src...)
	desc := ""
	for k := 0; k < nops; k++ {
		op := r.Intn(12)
		if len(fields) == 0 && op < 7 {
			op = 7 + r.Intn(5)
		}
		var sizes []Field
		if op < 2 {
			for _, f := range fields {
				if f.Kind == "size" {
					sizes = append(sizes, f)
				}
			}
		}
		switch {
		case op < 2 && len(sizes) > 0: // a box / segment / chunk over- or understates its size a little or a lot
			f := sizes[r.Intn(len(sizes))]
			old := GetField(b, f)
			v := old + uint64(r.Pick(1, 7, 8, 16, 100, 1000, 100000))
			if r.Chance(1, 4) {
				v = old - uint64(r.Pick(1, 2, 4, 8))
			}
			PutField(b, f, v)
			desc += fmt.Sprintf("resize@%d/%d:%d->%d;", f.Off, f.Width, old, v)
		case op < 7: // field-directed
			f := fields[r.Intn(len(fields))]
			desc += MutateField(r, b, f) + ";"
		case op == 7: // random byte flips in the first 4 KiB
			n := r.Range(1, 8)
			lim := len(b)
			if lim > 4096 {
				lim = 4096
			}
			for i := 0; i < n && lim > 0; i++ {
				p := r.Intn(lim)
				b[p] ^= byte(1 << uint(r.Intn(8)))
			}
			desc += fmt.Sprintf("flip%d;", n)
		case op == 8: // overwrite a run with 0x00 / 0xFF / random
			if len(b) > 0 {
				p := r.Intn(len(b))
				n := r.Range(1, 64)
				fill := byte(r.Pick(0, 0xFF, 0x20, 0x49, 0x4D))
				for i := p; i < p+n && i < len(b); i++ {
					if fill == 0x20 {
						b[i] = byte(r.Intn(256))
					} else {
						b[i] = fill
					}
				}
				desc += fmt.Sprintf("run@%d+%d=%02x;", p, n, fill)
			}
		case op == 9: // delete a span
			if len(b) > 8 {
				p := r.Intn(len(b))
				if len(fields) > 0 && r.Bool() {
					p = fields[r.Intn(len(fields))].Off
				}
				n := r.Pick(1, 2, 4, 8, 12, 16, 64, 512)
				if p+n > len(b) {
					n = len(b) - p
				}
				if p >= 0 && p <= len(b) && n > 0 {
					b = append(b[:p], b[p+n:]...)
					desc += fmt.Sprintf("del@%d+%d;", p, n)
				}
			}
		case op == 10: // duplicate a span
			if len(b) > 8 {
				p := r.Intn(len(b))
				if len(fields) > 0 && r.Bool() {
					p = fields[r.Intn(len(fields))].Off
				}
				n := r.Pick(2, 4, 8, 12, 24, 64, 300)
				if p+n > len(b) {
					n = len(b) - p
				}
				if p >= 0 && n > 0 {
					dup := append([]byte(nil), b[p:p+n]...)
					b = append(b[:p+n], append(dup, b[p+n:]...)...)
					desc += fmt.Sprintf("dup@%d+%d;", p, n)
				}
			}
		default: // truncate
			if len(b) > 1 {
				p := r.Intn(len(b))
				if len(fields) > 0 && r.Bool() {
					f := fields[r.Intn(len(fields))]
					p = f.Off + r.Pick(0, 1, f.Width, f.Width+1)
				}
				if p >= 0 && p < len(b) {
					b = b[:p]
					desc += fmt.Sprintf("trunc@%d;", p)
				}
			}
		}
	}
	return b, desc
}

// Splice puts a region of donor into host at a structural position.
func Splice(r *core.Rng, host, donor []byte, hf []Field) ([]byte, string) {
	if len(host) == 0 || len(donor) == 0 {
		return append([]byte(nil), host...), "splice-none"
	}
	p := r.Intn(len(host))
	if len(hf) > 0 {
		p = hf[r.Intn(len(hf))].Off
	}
	q := r.Intn(len(donor))
	n := r.Range(1, 2048)
	if q+n > len(donor) {
		n = len(donor) - q
	}
	if p > len(host) {
		p = len(host)
	}
	out := append([]byte(nil), host[:p]...)
	out = append(out, donor[q:q+n]...)
	if r.Bool() && p+n < len(host) {
		out = append(out, host[p+n:]...) // overwrite
	} else {
		out = append(out, host[p:]...) // insert
	}
	return out, fmt.Sprintf("splice@%d<-%d+%d", p, q, n)
}
