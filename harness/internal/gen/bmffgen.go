package gen

import (
	"encoding/binary"
	"encoding/hex"
	"strings"

	"verif/harness/internal/core"
)

// Box is a node of an ISOBMFF box tree. After Serialise, Off/Size/PayloadOff describe where the
// box landed (the ground truth for C11).
type Box struct {
	Type    string
	Large   bool   // 64-bit size form
	Full    bool   // FullBox: 4 bytes version/flags precede the payload
	VerFlag uint32 //
	UUID    []byte // for 'uuid' boxes: 16 bytes after the header
	Pre     []byte // fixed bytes before children (after Full/UUID)
	Payload []byte // leaf payload (if no Kids)
	Kids    []*Box
	Post    []byte // bytes after the children (slack inside the box, < 8 bytes or junk)

	// malformation: declared size = real size + SizeDelta (or SizeForce if >= 0)
	SizeDelta int64
	SizeForce int64
	HasForce  bool

	Off        int
	Size       int // real size in the stream
	PayloadOff int // offset of the first byte after header(+full+uuid)
	Tag        string
}

func (b *Box) hdrLen() int {
	n := 8
	if b.Large {
		n = 16
	}
	return n
}

// RealSize computes the real serialised size.
func (b *Box) RealSize() int {
	n := b.hdrLen()
	if b.Full {
		n += 4
	}
	n += len(b.UUID) + len(b.Pre)
	if len(b.Kids) > 0 {
		for _, k := range b.Kids {
			n += k.RealSize()
		}
	} else {
		n += len(b.Payload)
	}
	n += len(b.Post)
	return n
}

// Serialise appends the box to out.
func (b *Box) Serialise(out []byte) []byte {
	b.Off = len(out)
	real := b.RealSize()
	b.Size = real
	decl := int64(real) + b.SizeDelta
	if b.HasForce {
		decl = b.SizeForce
	}
	typ := (b.Type + "    ")[:4]
	if b.Large {
		out = append(out, 0, 0, 0, 1)
		out = append(out, typ...)
		var s [8]byte
		binary.BigEndian.PutUint64(s[:], uint64(decl))
		out = append(out, s[:]...)
	} else {
		var s [4]byte
		binary.BigEndian.PutUint32(s[:], uint32(decl))
		out = append(out, s[:]...)
		out = append(out, typ...)
	}
	if b.Full {
		var s [4]byte
		binary.BigEndian.PutUint32(s[:], b.VerFlag)
		out = append(out, s[:]...)
	}
	out = append(out, b.UUID...)
	b.PayloadOff = len(out)
	out = append(out, b.Pre...)
	if len(b.Kids) > 0 {
		for _, k := range b.Kids {
			out = k.Serialise(out)
		}
	} else {
		out = append(out, b.Payload...)
	}
	out = append(out, b.Post...)
	return out
}

func mustHex(s string) []byte {
	b, err := hex.DecodeString(strings.ReplaceAll(s, "-", ""))
	if err != nil {
		panic(err)
	}
	return b
}

var (
	UUIDCanonMeta = mustHex("85c0b687-820f-11e0-8111-f4ce462b6a48")
	UUIDXPacket   = mustHex("be7acfcb-97a9-42e8-9c71-999491e3afac")
	UUIDPreview   = mustHex("eaf42b5e-1c98-4b88-b9fb-b7dc406e4d16")
)

func Ftyp(major string, minor uint32, compat ...string) *Box {
	p := []byte((major + "    ")[:4])
	var s [4]byte
	binary.BigEndian.PutUint32(s[:], minor)
	p = append(p, s[:]...)
	for _, c := range compat {
		p = append(p, (c + "    ")[:4]...)
	}
	return &Box{Type: "ftyp", Payload: p}
}

// CR3Parts is what goes into a generated CR3 file.
type CR3Parts struct {
	CMT1, CMT2, CMT3, CMT4 []byte // TIFF blobs (nil = box absent)
	XMP                    []byte // xpacket payload (nil = absent)
	Preview                []byte // JPEG bytes of the PRVW box (nil = absent)
	PrvwW, PrvwH           uint16
	CTBOOver               int  // declared CTBO item count exceeds the items present by this much (malformed variant)
	TopNoise               int  // sprinkle unknown / opaque boxes between the top-level boxes too
	NoMdat                 bool // the file ends with the last metadata box (no trailing mdat)
	// Align > 0: a free box is inserted as the first child of moov so that the header of a
	// randomly chosen nested box (64-bit headers preferred) starts Align-1 bytes before a 4 KiB
	// boundary of the stream, i.e. where a 4 KiB buffered reader has only that much left.
	Align int
	// OddSiblings: the children of the Canon metadata box that are not metadata take unusual but
	// harmless shapes (CNCV of any length, CTBO empty / 3 bytes / hundreds of entries, an empty or
	// 4-byte CMT3) and all children come in a random order.
	OddSiblings bool
	// CanonTop: the Canon metadata uuid box is a top-level box of its own (after moov) instead of
	// a child of moov, and its last child is an 8..15-byte free box: too short for the 16 bytes a
	// child header is peeked with.
	CanonTop bool
	// PrvwSizeDelta: the JPEG-size field inside the PRVW payload says this much more (or less)
	// than the box holds; the box sizes stay well formed. PrvwTail: a free box follows PRVW inside
	// the preview uuid box.
	PrvwSizeDelta int
	PrvwTail      bool
	// PrvwOdd: the child of the preview uuid box is not a PRVW box (same bytes under another
	// type): the reader reports an error for it, and still has to leave the box behind.
	PrvwOdd bool
}

// CR3 is a generated file and its ground truth.
type CR3 struct {
	Bytes []byte
	Top   []*Box
	Named map[string]*Box // "CMT1".., "xpacket", "PRVW", "moov", ...
}

func randUnknownType(r *core.Rng) string {
	return r.PickStr("abcd", "XXXX", "zzzz", "wide", "udta", "pnot", "PICT", "cmt1", "CMTx", "\x00\x00\x00\x00", "\xff\xff\xff\xff", "Exi\x00", "junk")
}

func randKnownNoise(r *core.Rng) string {
	// known types that the CR3 paths treat as opaque
	return r.PickStr("free", "mvhd", "CCTP", "THMB", "CCDT", "CTMD", "CRAW", "stbl", "mdia", "hdlr", "vmhd", "dinf", "thmb", "tkhd")
}

// BuildCR3 assembles a Canon CR3 file around the parts. noise controls how many unknown /
// opaque boxes are sprinkled around; large64 uses 64-bit sizes on some boxes.
func BuildCR3(r *core.Rng, p CR3Parts, noise int, large64 bool) CR3 {
	named := map[string]*Box{}
	lg := func() bool { return large64 && r.Chance(1, 3) }
	noiseBox := func() *Box {
		t := randKnownNoise(r)
		if r.Bool() {
			t = randUnknownType(r)
		}
		n := r.Range(0, 40)
		if r.Chance(1, 6) {
			n = r.Range(41, 5000)
		}
		return &Box{Type: t, Payload: r.Bytes(n), Large: lg(), Tag: "noise"}
	}
	sprinkle := func(kids []*Box) []*Box {
		var out []*Box
		for _, k := range kids {
			for noise > 0 && r.Chance(noise, noise+3) {
				out = append(out, noiseBox())
			}
			out = append(out, k)
		}
		for noise > 0 && r.Chance(noise, noise+4) {
			out = append(out, noiseBox())
		}
		return out
	}
	var canonKids []*Box
	cncv := &Box{Type: "CNCV", Payload: []byte("CanonCR3_001/00.09.00/00.00.00"), Tag: "CNCV"}
	if p.OddSiblings {
		cncv.Payload = r.Bytes(r.Pick(0, 1, 10, 18, 29, 30, 31, 60))
	}
	canonKids = append(canonKids, cncv)
	if r.Chance(3, 4) {
		cctp := &Box{Type: "CCTP", Payload: r.Bytes(r.Range(12, 80)), Tag: "CCTP"}
		canonKids = append(canonKids, cctp)
	}
	if r.Chance(3, 4) || p.CTBOOver > 0 {
		n := r.Range(1, 5)
		if p.CTBOOver > 0 {
			n = 5
		}
		pl := make([]byte, 4+20*n)
		binary.BigEndian.PutUint32(pl, uint32(n+p.CTBOOver))
		for i := 0; i < n; i++ {
			binary.BigEndian.PutUint32(pl[4+20*i:], uint32(i+1))
			binary.BigEndian.PutUint64(pl[8+20*i:], r.U64()>>20)
			binary.BigEndian.PutUint64(pl[16+20*i:], r.U64()>>30)
		}
		canonKids = append(canonKids, &Box{Type: "CTBO", Payload: pl, Tag: "CTBO"})
	}
	for _, c := range []struct {
		n string
		b []byte
	}{{"CMT1", p.CMT1}, {"CMT2", p.CMT2}, {"CMT3", p.CMT3}, {"CMT4", p.CMT4}} {
		if c.b != nil {
			bx := &Box{Type: c.n, Payload: c.b, Large: lg(), Tag: c.n}
			named[c.n] = bx
			canonKids = append(canonKids, bx)
		}
	}
	if r.Chance(1, 2) {
		canonKids = append(canonKids, &Box{Type: "THMB", Payload: r.Bytes(r.Range(16, 3000)), Tag: "THMB"})
	}
	if p.OddSiblings {
		switch r.Intn(4) {
		case 0:
			canonKids = append(canonKids, &Box{Type: "CTBO", Payload: r.Bytes(r.Pick(0, 1, 3)), Tag: "CTBO-short"})
		case 1:
			n := r.Range(205, 400)
			pl := make([]byte, 4+20*n)
			binary.BigEndian.PutUint32(pl, uint32(n))
			canonKids = append(canonKids, &Box{Type: "CTBO", Payload: pl, Tag: "CTBO-long"})
		}
		if p.CMT3 == nil && r.Bool() {
			canonKids = append(canonKids, &Box{Type: "CMT3", Payload: r.Bytes(r.Pick(0, 0, 4, 7)), Tag: "CMT3-empty"})
		}
		pm := r.Perm(len(canonKids))
		sh := make([]*Box, len(canonKids))
		for i, j := range pm {
			sh[i] = canonKids[j]
		}
		canonKids = sh
	}
	canon := &Box{Type: "uuid", UUID: UUIDCanonMeta, Kids: sprinkle(canonKids), Large: lg(), Tag: "uuid-canon"}
	named["uuid-canon"] = canon
	moovKids := []*Box{canon}
	if p.CanonTop {
		canon.Kids = append(canon.Kids, &Box{Type: r.PickStr("free", "skip", "abcd"), Payload: r.Bytes(r.Intn(8)), Tag: "tail"})
		moovKids = nil
	}
	if r.Chance(2, 3) || p.CanonTop {
		moovKids = append(moovKids, &Box{Type: "mvhd", Full: true, Payload: r.Bytes(96), Tag: "mvhd"})
	}
	for i := r.Range(0, 3); i > 0; i-- {
		moovKids = append(moovKids, &Box{Type: "trak", Kids: []*Box{{Type: "tkhd", Full: true, Payload: r.Bytes(80)}, {Type: "mdia", Payload: r.Bytes(r.Range(8, 300))}}, Tag: "trak"})
	}
	moov := &Box{Type: "moov", Kids: sprinkle(moovKids), Large: lg(), Tag: "moov"}
	named["moov"] = moov
	brands := []string{"crx ", "isom"}
	if p.OddSiblings || p.Align > 0 {
		// any number of compatible brands (legal; cameras write two)
		for k := r.Pick(0, 0, 1, 6, 7, 8, 9, 12, 30); k > 0; k-- {
			brands = append(brands, r.PickStr("isom", "iso2", "mp41", "crx ", "heic", "mif1", "avif", "abcd"))
		}
	}
	top := []*Box{Ftyp("crx ", 1, brands...)}
	top = append(top, moov)
	if p.CanonTop {
		top = append(top, canon)
	}
	if p.XMP != nil {
		xp := &Box{Type: "uuid", UUID: UUIDXPacket, Payload: p.XMP, Large: lg(), Tag: "xpacket"}
		named["xpacket"] = xp
		top = append(top, xp)
	}
	if p.Preview != nil {
		pr := make([]byte, 16)
		binary.BigEndian.PutUint32(pr[0:], 0)
		binary.BigEndian.PutUint16(pr[4:], 1)
		binary.BigEndian.PutUint16(pr[6:], p.PrvwW)
		binary.BigEndian.PutUint16(pr[8:], p.PrvwH)
		binary.BigEndian.PutUint16(pr[10:], 1)
		binary.BigEndian.PutUint32(pr[12:], uint32(len(p.Preview)+p.PrvwSizeDelta))
		prvw := &Box{Type: "PRVW", Payload: append(pr, p.Preview...), Tag: "PRVW"}
		if p.PrvwOdd {
			prvw.Type = r.PickStr("PRVX", "free", "uuid", "THMB")
		}
		named["PRVW"] = prvw
		// preview uuid: 8 bytes (version/flags + count) precede the PRVW box
		pvKids := []*Box{prvw}
		if p.PrvwTail {
			pvKids = append(pvKids, &Box{Type: "free", Payload: bytesOf(0xEE, r.Range(8, 200)), Tag: "prvw-tail"})
		}
		pv := &Box{Type: "uuid", UUID: UUIDPreview, Pre: []byte{0, 0, 0, 0, 0, 0, 0, 1}, Kids: pvKids, Large: lg(), Tag: "uuid-preview"}
		named["uuid-preview"] = pv
		top = append(top, pv)
	}
	if !p.NoMdat {
		top = append(top, &Box{Type: "mdat", Payload: r.Bytes(r.Range(64, 2000)), Large: large64 && r.Bool(), Tag: "mdat"})
	}
	if p.Align > 0 {
		var scratch []byte
		for _, b := range top {
			scratch = b.Serialise(scratch)
		}
		var cands, large []*Box
		var walk func(b *Box)
		walk = func(b *Box) {
			for _, k := range b.Kids {
				cands = append(cands, k)
				if k.Large {
					large = append(large, k)
				}
				walk(k)
			}
		}
		walk(moov)
		if len(large) > 0 && r.Chance(3, 4) {
			cands = large
		}
		if len(cands) > 0 {
			t := cands[r.Intn(len(cands))]
			want := 4096 - (p.Align - 1)
			pad := ((want-t.Off)%4096 + 4096) % 4096
			if pad < 8 {
				pad += 4096
			}
			moov.Kids = append([]*Box{{Type: "free", Payload: r.Bytes(pad - 8), Tag: "align"}}, moov.Kids...)
		}
	}
	if p.TopNoise > 0 {
		var t2 []*Box
		for i, b := range top {
			if i > 0 {
				for r.Chance(p.TopNoise, p.TopNoise+3) {
					nb := noiseBox()
					if r.Bool() {
						nb.Type = r.PickStr("free", "skip", "wide", "abcd", "uuid")
						if nb.Type == "uuid" {
							nb.UUID = r.Bytes(16)
						}
					}
					t2 = append(t2, nb)
				}
			}
			t2 = append(t2, b)
		}
		top = t2
	}
	var out []byte
	for _, b := range top {
		out = b.Serialise(out)
	}
	return CR3{Bytes: out, Top: top, Named: named}
}

// BuildHEIF wraps an Exif (TIFF) payload in a HEIF-branded file: ftyp, meta{hdlr,pitm,iinf,iloc,...}, mdat.
func BuildHEIF(r *core.Rng, tiff []byte, brandChoice int) []byte {
	var ft *Box
	switch brandChoice % 4 {
	case 0:
		ft = Ftyp("heic", 0, "mif1", "heic")
	case 1:
		ft = Ftyp("heix", 0, "mif1", "heix")
	case 2:
		ft = Ftyp("mif1", 0, "mif1", "heic")
	default:
		ft = Ftyp("mif1", 0, "heic", "mif1", "miaf")
	}
	hdlr := &Box{Type: "hdlr", Full: true, Payload: append([]byte{0, 0, 0, 0, 'p', 'i', 'c', 't'}, make([]byte, 13)...)}
	pitm := &Box{Type: "pitm", Full: true, Payload: []byte{0, 1}}
	infe := func(id uint16, typ string, extra string) *Box {
		p := []byte{byte(id >> 8), byte(id), 0, 0}
		p = append(p, typ...)
		p = append(p, 0)
		p = append(p, extra...)
		return &Box{Type: "infe", Full: true, VerFlag: 2 << 24, Payload: p}
	}
	iinf := &Box{Type: "iinf", Full: true, Pre: []byte{0, 2}, Kids: []*Box{infe(1, "hvc1", ""), infe(2, "Exif", "")}}
	iprp := &Box{Type: "iprp", Kids: []*Box{{Type: "ipco", Kids: []*Box{{Type: "ispe", Full: true, Payload: []byte{0, 0, 16, 0, 0, 0, 12, 0}}}},
		{Type: "ipma", Full: true, Payload: []byte{0, 0, 0, 1, 0, 1, 1, 0x81}}}}
	// exif item: 4-byte offset to TIFF header + "Exif\0\0" + TIFF
	item := append([]byte{0, 0, 0, 6}, []byte(ExifPrefix)...)
	item = append(item, tiff...)
	img := r.Bytes(r.Range(64, 1500))
	if r.Chance(1, 4) {
		img = r.Bytes(r.Pick(0, 0, 1, 4, 7, 8, 9, 15, 16)) // the Exif item at (or right after) the start of mdat
	}
	mdatPayload := append(append([]byte{}, img...), item...)
	mdatPayload = append(mdatPayload, r.Bytes(r.Range(0, 300))...)
	// iloc v0, offset_size 4, length_size 4, base_offset_size 0; offsets patched after layout
	iloc := &Box{Type: "iloc", Full: true}
	ilocPayload := []byte{0x44, 0x00, 0, 2}
	ent := func(id uint16, off, ln uint32) []byte {
		e := []byte{byte(id >> 8), byte(id), 0, 0, 0, 1}
		var s [8]byte
		binary.BigEndian.PutUint32(s[0:], off)
		binary.BigEndian.PutUint32(s[4:], ln)
		return append(e, s[:]...)
	}
	iloc.Payload = append(ilocPayload, append(ent(1, 0, uint32(len(img))), ent(2, 0, uint32(len(item)))...)...)
	meta := &Box{Type: "meta", Full: true, Kids: []*Box{hdlr, pitm, iinf, iprp, iloc}}
	mdat := &Box{Type: "mdat", Payload: mdatPayload}
	var out []byte
	out = ft.Serialise(out)
	out = meta.Serialise(out)
	mdatOff := len(out) + 8
	if brandChoice >= 4 && brandChoice%8 >= 4 {
		// the 64-bit size form (size field 1 + largesize), which writers use for large image data:
		// the payload starts 16 bytes into the box
		mdat.Large = true
		mdatOff += 8
	}
	// patch iloc offsets
	p := iloc.PayloadOff + 4
	binary.BigEndian.PutUint32(out[p+6:], uint32(mdatOff))
	binary.BigEndian.PutUint32(out[p+14+6:], uint32(mdatOff+len(img)))
	if brandChoice&8 != 0 {
		// two mdat boxes (image data in one, metadata in the other, in either order): the item
		// lies in the box whose extent covers it
		tail := mdatPayload[len(img)+len(item):]
		imgBox := &Box{Type: "mdat", Payload: append([]byte{}, img...)}
		hdr := mdatOff - len(out)
		mdat.Payload = append(append([]byte{}, item...), tail...)
		var imgOff, itemOff int
		if r.Bool() {
			imgOff = len(out) + 8
			out = imgBox.Serialise(out)
			itemOff = len(out) + hdr
			out = mdat.Serialise(out)
		} else {
			itemOff = len(out) + hdr
			out = mdat.Serialise(out)
			imgOff = len(out) + 8
			out = imgBox.Serialise(out)
		}
		binary.BigEndian.PutUint32(out[p+6:], uint32(imgOff))
		binary.BigEndian.PutUint32(out[p+14+6:], uint32(itemOff))
		tiffOff := itemOff + 10
		ScrubTIFFSig(out, 0, tiffOff)
		ScrubTIFFSig(out, tiffOff+len(tiff), len(out))
		return out
	}
	out = mdat.Serialise(out)
	tiffOff := mdatOff + len(img) + 10
	ScrubTIFFSig(out, 0, tiffOff)
	ScrubTIFFSig(out, tiffOff+len(tiff), len(out))
	return out
}

func bytesOf(v byte, n int) []byte {
	b := make([]byte, n)
	for i := range b {
		b[i] = v
	}
	return b
}
