package gen

import (
	"bytes"
	"image"
	"image/color"
	"image/jpeg"
	"math"
	"os"
	"path/filepath"
	"sync"

	"verif/harness/internal/core"
)

// ImgSpec describes a generated image.
type ImgSpec struct {
	Kind    string // "rgba","nrgba","gray","ycbcr444","ycbcr422","ycbcr420","ycbcr440","ycbcr411","ycbcr410","paletted","rgba64"
	W, H    int
	OX, OY  int    // rectangle origin
	Sub     bool   // SubImage of a larger image (stride > width)
	Content string // "gradient","noise","constant","checker","pixel","extreme","photo","asset"
	Alpha   bool   // nrgba only: varying alpha below 255
}

var (
	assetOnce sync.Once
	assetImgs []image.Image
)

// assets decodes the repository's sample photographs once (standard library decoder).
func assets() []image.Image {
	assetOnce.Do(func() {
		for _, n := range []string{"JPEG.jpg", "a1.jpg", "a2.jpg", "NoExif.jpg"} {
			b, err := os.ReadFile(filepath.Join(RepoDir(), "assets", n))
			if err != nil {
				continue
			}
			if img, err := jpeg.Decode(bytes.NewReader(b)); err == nil {
				assetImgs = append(assetImgs, img)
			}
		}
	})
	return assetImgs
}

// boxResize is the harness's own box filter: the photograph is cut to a centred square and
// every target pixel is the mean of its source box.
func boxResize(src image.Image, w, h int) [][3]uint8 {
	b := src.Bounds()
	side := b.Dx()
	if b.Dy() < side {
		side = b.Dy()
	}
	x0, y0 := b.Min.X+(b.Dx()-side)/2, b.Min.Y+(b.Dy()-side)/2
	out := make([][3]uint8, w*h)
	for y := 0; y < h; y++ {
		for x := 0; x < w; x++ {
			sx0, sx1 := x0+x*side/w, x0+(x+1)*side/w
			sy0, sy1 := y0+y*side/h, y0+(y+1)*side/h
			if sx1 <= sx0 {
				sx1 = sx0 + 1
			}
			if sy1 <= sy0 {
				sy1 = sy0 + 1
			}
			var sr, sg, sb, n uint64
			for yy := sy0; yy < sy1; yy++ {
				for xx := sx0; xx < sx1; xx++ {
					r, g, bb, _ := src.At(xx, yy).RGBA()
					sr, sg, sb, n = sr+uint64(r>>8), sg+uint64(g>>8), sb+uint64(bb>>8), n+1
				}
			}
			out[y*w+x] = [3]uint8{uint8(sr / n), uint8(sg / n), uint8(sb / n)}
		}
	}
	return out
}

var (
	resizedMu sync.Mutex
	resized   = map[[3]int][][3]uint8{}
)

func (s ImgSpec) String() string {
	return s.Kind + "/" + s.Content
}

// pixel function: returns r,g,b in 0..255 for logical coordinates (x,y) in [0,W)x[0,H)
func contentFn(r *core.Rng, s ImgSpec) func(x, y int) (uint8, uint8, uint8) {
	switch s.Content {
	case "constant":
		a, b, c := uint8(r.Intn(256)), uint8(r.Intn(256)), uint8(r.Intn(256))
		return func(x, y int) (uint8, uint8, uint8) { return a, b, c }
	case "checker":
		k := r.Pick(1, 2, 8, 16)
		return func(x, y int) (uint8, uint8, uint8) {
			if ((x/k)+(y/k))%2 == 0 {
				return 255, 255, 255
			}
			return 0, 0, 0
		}
	case "pixel":
		px, py := r.Intn(maxi(s.W, 1)), r.Intn(maxi(s.H, 1))
		return func(x, y int) (uint8, uint8, uint8) {
			if x == px && y == py {
				return 255, 255, 255
			}
			return 0, 0, 0
		}
	case "extreme":
		tbl := r.Bytes(64)
		return func(x, y int) (uint8, uint8, uint8) {
			v := uint8(0)
			if tbl[(x/8+y/8*8)%64]&1 == 1 {
				v = 255
			}
			return v, v, v
		}
	case "noise":
		seed := r.U64()
		return func(x, y int) (uint8, uint8, uint8) {
			h := core.NewRng(seed, uint64(x), uint64(y)).U64()
			return uint8(h), uint8(h >> 8), uint8(h >> 16)
		}
	case "asset":
		as := assets()
		if len(as) == 0 || s.W <= 0 || s.H <= 0 {
			return func(x, y int) (uint8, uint8, uint8) { return 128, 128, 128 }
		}
		k := r.Intn(len(as))
		key := [3]int{k, s.W, s.H}
		resizedMu.Lock()
		px, ok := resized[key]
		if !ok {
			px = boxResize(as[k], s.W, s.H)
			resized[key] = px
		}
		resizedMu.Unlock()
		return func(x, y int) (uint8, uint8, uint8) { p := px[y*s.W+x]; return p[0], p[1], p[2] }
	case "photo": // smooth low-frequency content plus mild noise, like a resized photograph
		fx, fy := r.Float()*3+0.3, r.Float()*3+0.3
		ph1, ph2 := r.Float()*6, r.Float()*6
		seed := r.U64()
		return func(x, y int) (uint8, uint8, uint8) {
			u, v := float64(x)/float64(maxi(s.W, 1)), float64(y)/float64(maxi(s.H, 1))
			a := 0.5 + 0.35*math.Sin(2*math.Pi*fx*u+ph1)*math.Cos(2*math.Pi*fy*v+ph2) + 0.1*math.Sin(2*math.Pi*(u+v)*5)
			n := float64(core.NewRng(seed, uint64(x), uint64(y)).Intn(17)) - 8
			c := func(k float64) uint8 {
				z := a*255*k + n
				if z < 0 {
					z = 0
				}
				if z > 255 {
					z = 255
				}
				return uint8(z)
			}
			return c(1), c(0.9), c(0.8)
		}
	default: // gradient
		ax, ay := r.Float()*2-1, r.Float()*2-1
		return func(x, y int) (uint8, uint8, uint8) {
			u, v := float64(x)/float64(maxi(s.W, 1)), float64(y)/float64(maxi(s.H, 1))
			z := 128 + 120*(ax*(u-0.5)+ay*(v-0.5))
			if z < 0 {
				z = 0
			}
			if z > 255 {
				z = 255
			}
			return uint8(z), uint8(255 - z), uint8(z / 2)
		}
	}
}

func maxi(a, b int) int {
	if a > b {
		return a
	}
	return b
}

// MakeImage builds the image. Pixels are defined on logical coordinates, so the same spec
// with a different origin / Sub flag holds the same pixels at shifted coordinates.
func MakeImage(r *core.Rng, s ImgSpec) image.Image {
	f := contentFn(r, s)
	rect := image.Rect(s.OX, s.OY, s.OX+s.W, s.OY+s.H)
	outer := rect
	if s.Sub {
		outer = image.Rect(s.OX-3, s.OY-2, s.OX+s.W+5, s.OY+s.H+4)
	}
	type subImager interface {
		SubImage(r image.Rectangle) image.Image
	}
	finish := func(img image.Image) image.Image {
		if s.Sub {
			return img.(subImager).SubImage(rect)
		}
		return img
	}
	switch s.Kind {
	case "rgba", "nrgba", "gray", "rgba64", "paletted":
		var img interface {
			image.Image
			Set(x, y int, c color.Color)
		}
		switch s.Kind {
		case "rgba":
			img = image.NewRGBA(outer)
		case "nrgba":
			img = image.NewNRGBA(outer)
		case "gray":
			img = image.NewGray(outer)
		case "rgba64":
			img = image.NewRGBA64(outer)
		default:
			pal := make(color.Palette, 256)
			for i := range pal {
				pal[i] = color.RGBA{uint8(i), uint8(i), uint8(i), 255}
			}
			img = image.NewPaletted(outer, pal)
		}
		// fill the margin of a sub-image parent with a hostile value
		for y := outer.Min.Y; y < outer.Max.Y; y++ {
			for x := outer.Min.X; x < outer.Max.X; x++ {
				if !(image.Point{x, y}.In(rect)) {
					img.Set(x, y, color.RGBA{255, 0, 255, 255})
				}
			}
		}
		for y := 0; y < s.H; y++ {
			for x := 0; x < s.W; x++ {
				cr, cg, cb := f(x, y)
				switch s.Kind {
				case "gray", "paletted":
					img.Set(s.OX+x, s.OY+y, color.Gray{cr})
				case "nrgba":
					a := uint8(255)
					if s.Alpha {
						a = alphaAt(x, y, s.W)
					}
					img.Set(s.OX+x, s.OY+y, color.NRGBA{cr, cg, cb, a})
				default:
					if s.Alpha && s.Kind == "rgba" {
						// premultiplied, with fully transparent regions (a sticker on nothing)
						a := uint32(alphaAt(x, y, s.W))
						img.Set(s.OX+x, s.OY+y, color.RGBA{uint8(uint32(cr) * a / 255), uint8(uint32(cg) * a / 255), uint8(uint32(cb) * a / 255), uint8(a)})
					} else {
						img.Set(s.OX+x, s.OY+y, color.RGBA{cr, cg, cb, 255})
					}
				}
			}
		}
		return finish(img)
	default:
		ratio := map[string]image.YCbCrSubsampleRatio{"ycbcr444": image.YCbCrSubsampleRatio444, "ycbcr422": image.YCbCrSubsampleRatio422,
			"ycbcr420": image.YCbCrSubsampleRatio420, "ycbcr440": image.YCbCrSubsampleRatio440, "ycbcr411": image.YCbCrSubsampleRatio411,
			"ycbcr410": image.YCbCrSubsampleRatio410}[s.Kind]
		img := image.NewYCbCr(outer, ratio)
		for i := range img.Y {
			img.Y[i] = 0xEE
		}
		for i := range img.Cb {
			img.Cb[i] = 0x11
			img.Cr[i] = 0xDD
		}
		for y := 0; y < s.H; y++ {
			for x := 0; x < s.W; x++ {
				cr, cg, cb := f(x, y)
				yy, cbb, crr := color.RGBToYCbCr(cr, cg, cb)
				img.Y[img.YOffset(s.OX+x, s.OY+y)] = yy
				ci := img.COffset(s.OX+x, s.OY+y)
				img.Cb[ci], img.Cr[ci] = cbb, crr
			}
		}
		return finish(img)
	}
}

// alphaAt: varying alpha below 255, and fully transparent blocks in a third of the image.
func alphaAt(x, y, w int) uint8 {
	if (x/5+y/7)%3 == 0 {
		return 0
	}
	return uint8(96 + core.NewRng(0x5eed, uint64(x), uint64(y)).Intn(160))
}

var ImgKinds = []string{"rgba", "nrgba", "gray", "ycbcr444"}
var ImgContents = []string{"gradient", "noise", "constant", "checker", "pixel", "extreme", "photo"}
