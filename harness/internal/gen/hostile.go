package gen

import (
	"bytes"
	"encoding/binary"
	"fmt"

	"verif/harness/internal/core"
)

// typedValue is one value of a directory entry found by walking the TIFF blocks of a file.
type typedValue struct {
	tag, typ uint16
	cnt      int
	off      int // absolute offset of the value bytes
	order    binary.ByteOrder
}

// walkTypedValues finds the TIFF blocks of b (by signature, wherever they are embedded) and
// returns the values of their IFD0 / Exif / GPS / chained directories that lie inside b.
func walkTypedValues(b []byte) []typedValue {
	var out []typedValue
	seen := 0
	for p := 0; p+8 <= len(b) && seen < 4; p++ {
		var order binary.ByteOrder
		switch {
		case bytes.HasPrefix(b[p:], []byte("II*\x00")):
			order = binary.LittleEndian
		case bytes.HasPrefix(b[p:], []byte("MM\x00*")):
			order = binary.BigEndian
		default:
			continue
		}
		seen++
		base := p
		var walk func(off, depth int)
		walk = func(off, depth int) {
			for chain := 0; chain < 3 && depth < 4; chain++ {
				q := base + off
				if off <= 0 || q+2 > len(b) {
					return
				}
				n := int(order.Uint16(b[q:]))
				if n > 300 {
					return
				}
				q += 2
				for i := 0; i < n && q+12 <= len(b); i, q = i+1, q+12 {
					tag, typ := order.Uint16(b[q:]), order.Uint16(b[q+2:])
					cnt := int(order.Uint32(b[q+4:]))
					val := int(order.Uint32(b[q+8:]))
					if typ >= uint16(len(typeSize)) || typeSize[typ] == 0 || cnt <= 0 || cnt > 1<<16 {
						continue
					}
					sz := typeSize[typ] * cnt
					at := q + 8
					if sz > 4 {
						at = base + val
					}
					if at >= 0 && at+sz <= len(b) {
						out = append(out, typedValue{tag, typ, cnt, at, order})
					}
					if (tag == 0x8769 || tag == 0x8825) && cnt == 1 {
						walk(val, depth+1)
					}
				}
				if q+4 > len(b) {
					return
				}
				off = int(order.Uint32(b[q:]))
			}
		}
		walk(int(order.Uint32(b[p+4:])), 0)
	}
	return out
}

var hostilePairs = []string{"00", "  ", "99", "0 ", " 0", "//", "::", "\x00\x00", "-1", "+1", "1:", ":1", "\xff\xff", "60", "24", "13", "32", "..", "0x", "e9"}

// HostileValues rewrites nops typed values of the Exif structures in src - the *contents* that
// structure-directed malformations leave alone: rationals get zero, all-ones and sign-bit
// numerators and denominators in each combination, date-like texts get two-character groups no
// calendar has (month 00 with a valid day, blanks, characters below '0'), other texts lose their
// terminator or gain control bytes, integers take the extremes of their width. The structure
// (counts, offsets, types) stays well formed, so the values are reached and interpreted.
func HostileValues(r *core.Rng, src []byte, nops int) ([]byte, string, bool) {
	b := append([]byte(nil), src...)
	vals := walkTypedValues(b)
	if len(vals) == 0 {
		return b, "", false
	}
	desc := "hostile:"
	if mode := r.Intn(8); mode < 4 {
		// the same hostile rewrite applied to every value of one class at once: whichever of them
		// the reader interprets arithmetically or as a date meets it in this one input
		ext := []uint32{0, 1, 0xffffffff, 0x80000000, 0x7fffffff, 0x80000001}
		pair := hostilePairs[r.Intn(len(hostilePairs))]
		grp := []int{0, 2, 5, 8, 11, 14, 17}[r.Intn(7)]
		sub := r.Intn(4)
		for _, v := range vals {
			switch {
			case mode == 0 && (v.typ == 5 || v.typ == 10): // every denominator zero, numerators kept non-zero
				for e := 0; e < v.cnt; e++ {
					at := v.off + 8*e
					if sub >= 2 && e != v.cnt-1 {
						continue // only the last element (seconds of a coordinate or time stamp)
					}
					if v.order.Uint32(b[at:]) == 0 || sub%2 == 1 {
						v.order.PutUint32(b[at:], uint32(1+e))
					}
					v.order.PutUint32(b[at+4:], 0)
				}
			case mode == 1 && (v.typ == 5 || v.typ == 10): // extremes in every rational
				for e := 0; e < v.cnt; e++ {
					at := v.off + 8*e
					v.order.PutUint32(b[at:], ext[(e+sub)%len(ext)])
					v.order.PutUint32(b[at+4:], ext[(e+sub+1+grp)%len(ext)])
				}
			case mode == 2 && v.typ == 2 && v.cnt >= 10 && v.cnt <= 21: // one group of every date-like text
				if grp+2 <= v.cnt {
					copy(b[v.off+grp:], pair)
				}
			case mode == 3 && (v.typ == 3 || v.typ == 4 || v.typ == 8 || v.typ == 9) && v.tag != 0x8769 && v.tag != 0x8825 && v.tag != 0x014a:
				w := typeSize[v.typ]
				x := specials[(int(v.tag)+sub)%len(specials)]
				for e := 0; e < v.cnt; e++ {
					if w == 2 {
						v.order.PutUint16(b[v.off+2*e:], uint16(x))
					} else {
						v.order.PutUint32(b[v.off+4*e:], uint32(x))
					}
				}
			}
		}
		return b, fmt.Sprintf("hostile:all mode=%d sub=%d pair=%q group=%d", mode, sub, pair, grp), true
	}
	for k := 0; k < nops; k++ {
		v := vals[r.Intn(len(vals))]
		if r.Chance(1, 2) {
			// prefer what the reader interprets arithmetically or as a date
			var pref []typedValue
			for _, w := range vals {
				if w.typ == 5 || w.typ == 10 || (w.typ == 2 && w.cnt >= 10 && w.cnt <= 21) {
					pref = append(pref, w)
				}
			}
			if len(pref) > 0 {
				v = pref[r.Intn(len(pref))]
			}
		}
		switch v.typ {
		case 5, 10: // RATIONAL, SRATIONAL
			e := r.Intn(v.cnt)
			if v.cnt >= 3 && r.Bool() {
				e = v.cnt - 1
			}
			at := v.off + 8*e
			num, den := v.order.Uint32(b[at:]), v.order.Uint32(b[at+4:])
			ext := []uint32{0, 1, 0xffffffff, 0x80000000, 0x7fffffff, 0x80000001, 0x10000, 0xffff, 60, 3600, 1000000000}
			switch r.Intn(6) {
			case 0: // numerator kept (non-zero), denominator zero
				if num == 0 {
					num = uint32(r.Range(1, 99))
				}
				den = 0
			case 1:
				num, den = 0, 0
			case 2:
				num = 0
			case 3:
				num = ext[r.Intn(len(ext))]
			case 4:
				den = ext[r.Intn(len(ext))]
			default:
				num, den = ext[r.Intn(len(ext))], ext[r.Intn(len(ext))]
			}
			v.order.PutUint32(b[at:], num)
			v.order.PutUint32(b[at+4:], den)
			desc += fmt.Sprintf("rat%04x[%d]=%d/%d;", v.tag, e, num, den)
		case 2: // ASCII
			s := b[v.off : v.off+v.cnt]
			if v.cnt >= 10 && v.cnt <= 21 && (s[4] == ':' || s[2] == ':' || s[3] == ':') {
				// a date, a time or a zone offset: replace one or two of its two-character groups
				groups := []int{0, 2, 5, 8, 11, 14, 17}
				for j := r.Range(1, 2); j > 0; j-- {
					g := groups[r.Intn(len(groups))]
					if g+2 <= len(s) {
						copy(s[g:], hostilePairs[r.Intn(len(hostilePairs))])
					}
				}
				if r.Chance(1, 6) {
					s[r.Intn(len(s))] = byte(r.Pick(0, ' ', ':', '-', '+', 'Z', '.', 0xff))
				}
			} else {
				switch r.Intn(4) {
				case 0:
					s[len(s)-1] = byte(r.Pick('x', ' ', 0xff)) // no terminator
				case 1:
					s[r.Intn(len(s))] = byte(r.Pick(0, 1, 0x7f, 0x80, 0xff, '\n'))
				case 2:
					for i := range s {
						s[i] = byte(r.Pick(0, ' ', 0xff))
					}
				default:
					copy(s, hostilePairs[r.Intn(len(hostilePairs))])
				}
			}
			desc += fmt.Sprintf("asc%04x=%q;", v.tag, trunc(string(s), 24))
		default:
			w := typeSize[v.typ]
			e := r.Intn(v.cnt)
			at := v.off + w*e
			x := specials[r.Intn(len(specials))]
			switch w {
			case 1:
				b[at] = byte(x)
			case 2:
				v.order.PutUint16(b[at:], uint16(x))
			case 4:
				v.order.PutUint32(b[at:], uint32(x))
			case 8:
				v.order.PutUint64(b[at:], x)
			}
			desc += fmt.Sprintf("int%04x[%d]=%d;", v.tag, e, x)
		}
	}
	return b, desc, true
}

func trunc(s string, n int) string {
	if len(s) > n {
		return s[:n]
	}
	return s
}
