package gen

import (
	"bytes"
	"encoding/binary"
	"fmt"

	"verif/harness/internal/core"
)

// Grammar-based hostile shapes: trees of the box types the ISOBMFF reader dispatches on, whose
// bodies are drawn from small per-type grammars with boundary-biased sizes and counts, packed
// tightly (every box ends exactly where its parent ends, so an index one past a child is also
// one past the parent's peeked window). They complement Mutate (which perturbs fields of
// otherwise well-formed files one to three at a time): here several cooperating fields are
// unusual at once.

func be16(v int) []byte { return []byte{byte(v >> 8), byte(v)} }
func be32(v int) []byte {
	var s [4]byte
	binary.BigEndian.PutUint32(s[:], uint32(v))
	return s[:]
}
func beN(v uint64, n int) []byte {
	out := make([]byte, n)
	for i := n - 1; i >= 0; i-- {
		out[i] = byte(v)
		v >>= 8
	}
	return out
}

// rawBox writes a box whose declared size is its real size (payload given).
func rawBox(typ string, payload []byte) []byte {
	out := append(be32(8+len(payload)), (typ + "    ")[:4]...)
	return append(out, payload...)
}

func fullBox(typ string, version int, flags int, payload []byte) []byte {
	p := append([]byte{byte(version), byte(flags >> 16), byte(flags >> 8), byte(flags)}, payload...)
	return rawBox(typ, p)
}

// infeEntry builds one iinf child of exactly size bytes where possible.
func infeEntry(r *core.Rng, size int) []byte {
	typ := "infe"
	if r.Chance(1, 10) {
		typ = r.PickStr("xxxx", "free", "infe", "INFE", "iinf")
	}
	ver := r.Pick(2, 2, 2, 2, 0, 1, 3, 255)
	body := []byte{}
	body = append(body, be16(r.Pick(0, 1, 2, 3, 0xffff))...) // item id
	body = append(body, be16(r.Pick(0, 0, 1, 0xffff))...)    // protection index
	body = append(body, r.PickStr("Exif", "mime", "hvc1", "grid", "uri ", "Exi\x00", "av01")...)
	switch r.Intn(4) {
	case 0:
		body = append(body, 0)
	case 1: // no terminator: the name follows directly
		body = append(body, "name"...)
	case 2:
		body = append(body, 0)
		body = append(body, r.PickStr("application/rdf+xml\x00", "image/jpeg\x00", "\x00", "x", "application/rdf+xml")...)
	}
	b := fullBox(typ, ver, r.Pick(0, 0, 1), body)
	if size == -1 {
		size = len(b) // exactly what the fields written need: every optional part ends at the box end
	}
	if size < 8 {
		// declared size below a box header: only the size field says so
		copy(b, be32(size))
		return b[:8]
	}
	switch {
	case len(b) > size:
		b = b[:size]
	case len(b) < size:
		b = append(b, r.Bytes(size-len(b))...)
	}
	copy(b, be32(size))
	return b
}

// iinfAllBox is an item-information box holding every combination of item type, tail form
// (nothing / terminator / name without terminator / terminator and content type / terminator and
// unterminated content type) and version once, each entry exactly as long as its fields.
func iinfAllBox(r *core.Rng) []byte {
	var kids []byte
	n := 0
	for _, it := range []string{"Exif", "mime", "hvc1", "grid", "uri ", "av01"} {
		for _, tail := range []string{"", "\x00", "name", "\x00application/rdf+xml\x00", "\x00image/jpeg", "\x00\x00"} {
			for _, ver := range []int{2, 2, 3, 0} {
				body := append(be16(n+1), be16(0)...)
				body = append(body, it...)
				body = append(body, tail...)
				e := fullBox("infe", ver, r.Pick(0, 0, 1), body)
				kids = append(kids, e...)
				n++
			}
		}
	}
	// entries in a seeded rotation, so that each kind also comes last
	cut := 0
	for k := r.Intn(n); k > 0; k-- {
		cut += int(kids[cut])<<24 | int(kids[cut+1])<<16 | int(kids[cut+2])<<8 | int(kids[cut+3])
	}
	kids = append(append([]byte(nil), kids[cut:]...), kids[:cut]...)
	return fullBox("iinf", 0, 0, append(be16(n), kids...))
}

func iinfBox(r *core.Rng) []byte {
	if r.Chance(1, 5) {
		return iinfAllBox(r)
	}
	n := r.Pick(0, 1, 1, 2, 2, 3, 6)
	var kids []byte
	for i := 0; i < n; i++ {
		sz := r.Pick(0, 4, 8, 11, 12, 13, 16, 19, 20, 20, 21, 21, 22, 23, 24, 30, 40, 41)
		if r.Chance(2, 5) {
			sz = -1
		}
		kids = append(kids, infeEntry(r, sz)...)
	}
	if r.Chance(1, 6) {
		kids = append(kids, r.Bytes(r.Range(1, 11))...) // slack shorter than an entry header
	}
	count := n
	if r.Chance(1, 4) {
		count = r.Pick(0, 1, 0xffff, n+1)
	}
	ver := r.Pick(0, 0, 0, 1)
	cnt := be16(count)
	if ver == 1 {
		cnt = be32(count)
	}
	return fullBox("iinf", ver, 0, append(cnt, kids...))
}

func ilocBox(r *core.Rng) []byte {
	ver := r.Pick(0, 0, 1, 2, 3)
	sz := func() int { return r.Pick(0, 4, 4, 8, 1, 2, 3, 15) }
	offS, lenS, baseS, idxS := sz(), sz(), sz(), sz()
	p := []byte{byte(offS<<4 | lenS), byte(baseS<<4 | idxS)}
	items := r.Pick(0, 1, 2, 3, 0xffff)
	real := items
	if real > 4 {
		real = r.Range(0, 4)
	}
	if ver < 2 {
		p = append(p, be16(items)...)
	} else {
		p = append(p, be32(items)...)
	}
	val := func(n int) []byte {
		if n > 8 {
			n = 8
		}
		v := uint64(r.Pick(0, 1, 8, 100, 0x7fffffff, 0xffffffff))
		if r.Bool() {
			v = r.U64()
		}
		return beN(v, n)
	}
	for i := 0; i < real; i++ {
		if ver < 2 {
			p = append(p, be16(r.Pick(1, 2, 3))...)
		} else {
			p = append(p, be32(r.Pick(1, 2, 3))...)
		}
		if ver == 1 || ver == 2 {
			p = append(p, be16(r.Pick(0, 1, 2))...)
		}
		p = append(p, be16(0)...) // data reference index
		p = append(p, val(baseS)...)
		ext := r.Pick(0, 1, 1, 2, 0xffff)
		p = append(p, be16(ext)...)
		if ext > 3 {
			ext = r.Range(0, 3)
		}
		for e := 0; e < ext; e++ {
			if ver == 1 || ver == 2 {
				p = append(p, val(idxS)...)
			}
			p = append(p, val(offS)...)
			p = append(p, val(lenS)...)
		}
	}
	if r.Chance(1, 3) && len(p) > 2 {
		p = p[:r.Range(0, len(p))]
	}
	return fullBox("iloc", ver, 0, p)
}

func smallFull(r *core.Rng, typ string, maxPayload int) []byte {
	return fullBox(typ, r.Pick(0, 0, 1, 2), 0, r.Bytes(r.Range(0, maxPayload)))
}

func metaShape(r *core.Rng) []byte {
	var kids []byte
	parts := []func() []byte{
		func() []byte {
			p := append(be32(0), r.PickStr("pict", "mdir", "pic", "\x00\x00\x00\x00")...)
			p = append(p, r.Bytes(r.Pick(0, 1, 12, 13, 20))...)
			if r.Chance(1, 4) {
				p = p[:r.Range(0, len(p))]
			}
			return fullBox("hdlr", 0, 0, p)
		},
		func() []byte { return smallFull(r, "pitm", 6) },
		func() []byte { return iinfBox(r) },
		func() []byte { return ilocBox(r) },
		func() []byte { return smallFull(r, "iref", 40) },
		func() []byte { return smallFull(r, "idat", 64) },
		func() []byte {
			ipco := rawBox("ipco", append(fullBox("ispe", 0, 0, r.Bytes(r.Pick(0, 4, 8))), smallFull(r, "pixi", 5)...))
			ipma := fullBox("ipma", r.Pick(0, 1), r.Pick(0, 1), r.Bytes(r.Range(0, 16)))
			if r.Bool() {
				return rawBox("iprp", append(ipco, ipma...))
			}
			return rawBox("iprp", ipma)
		},
		func() []byte { return rawBox(r.PickStr("free", "abcd", "uuid"), r.Bytes(r.Range(0, 30))) },
	}
	for _, i := range r.Perm(len(parts))[:r.Range(1, len(parts))] {
		kids = append(kids, parts[i]()...)
	}
	return fullBox("meta", 0, 0, kids)
}

func cmtBody(r *core.Rng) []byte {
	if r.Chance(1, 2) { // a real directory, so that a box that is skipped or mis-framed shows in the values
		t, _, _ := SynthPayload(r, r.Bool(), 1)
		return t
	}
	hdr := []byte("II*\x00\x08\x00\x00\x00")
	if r.Bool() {
		hdr = []byte("MM\x00*\x00\x00\x00\x08")
	}
	if r.Chance(1, 5) {
		// a block whose first bytes are not a TIFF signature (BigTIFF, a blanked or foreign header):
		// the byte order is unknown to whoever reads the rest
		hdr = append([]byte{}, hdr...)
		copy(hdr, r.PickStr("II+\x00", "MM\x00+", "\x00\x00\x00\x00", "Exif", "II\x00*", "MMMM", "\xff\xd8\xff\xe1"))
		if r.Bool() {
			t, _, _ := SynthPayload(r, r.Bool(), 1)
			return append(hdr[:4:4], t[4:]...)
		}
	}
	switch r.Intn(5) {
	case 0:
		return hdr[:r.Range(0, 8)]
	case 1:
		return hdr
	case 2: // directory with a count and a few entries, possibly cut
		b := append([]byte{}, hdr...)
		n := r.Pick(0, 1, 2, 128, 129, 0xffff)
		if hdr[0] == 'I' {
			b = append(b, byte(n), byte(n>>8))
		} else {
			b = append(b, be16(n)...)
		}
		b = append(b, r.Bytes(r.Pick(0, 11, 12, 13, 24, 40))...)
		return b
	default:
		return append(append([]byte{}, hdr...), r.Bytes(r.Range(0, 60))...)
	}
}

func canonUUIDShape(r *core.Rng) []byte {
	var kids []byte
	parts := []func() []byte{
		func() []byte { return rawBox("CNCV", r.Bytes(r.Pick(0, 1, 18, 29, 30, 30, 31))) },
		func() []byte {
			n := r.Pick(0, 1, 4, 5, 6, 0xffff, 0x7fffffff)
			real := n
			if real > 6 {
				real = r.Range(0, 6)
			}
			p := be32(n)
			for i := 0; i < real; i++ {
				num := i + 1
				if r.Chance(1, 4) {
					// record numbers are file-derived indices: 0, duplicates, just beyond the table, huge
					num = r.Pick(0, 0, 1, 5, 6, 7, 0x7fffffff, 0x80000000, 0xffffffff)
				}
				p = append(p, be32(num)...)
				p = append(p, beN(r.U64(), 8)...)
				p = append(p, beN(r.U64(), 8)...)
			}
			if r.Chance(1, 4) {
				p = p[:r.Range(0, len(p))]
			}
			return rawBox("CTBO", p)
		},
		func() []byte { return rawBox("CMT1", cmtBody(r)) },
		func() []byte { return rawBox("CMT2", cmtBody(r)) },
		func() []byte { return rawBox("CMT3", cmtBody(r)) },
		func() []byte { return rawBox("CMT4", cmtBody(r)) },
		func() []byte { return fullBox("THMB", r.Pick(0, 1), 0, r.Bytes(r.Range(0, 24))) },
		func() []byte { return rawBox("CCTP", r.Bytes(r.Range(0, 20))) },
	}
	for _, i := range r.Perm(len(parts))[:r.Range(1, len(parts))] {
		kids = append(kids, parts[i]()...)
	}
	return rawBox("uuid", append(append([]byte{}, UUIDCanonMeta...), kids...))
}

func prvwShape(r *core.Rng) []byte {
	jpeg := append([]byte{0xFF, 0xD8}, r.Bytes(r.Range(0, 200))...)
	size := len(jpeg)
	if r.Chance(1, 2) {
		size = r.Pick(0, 1, len(jpeg)-1, len(jpeg)+1, 0xffff, 0x7fffffff, 0xffffffff)
	}
	p := append(be32(0), be16(1)...)
	p = append(p, be16(r.Intn(65536))...)
	p = append(p, be16(r.Intn(65536))...)
	p = append(p, be16(1)...)
	p = append(p, be32(size)...)
	p = append(p, jpeg...)
	if r.Chance(1, 4) {
		p = p[:r.Range(0, len(p))]
	}
	inner := rawBox("PRVW", p)
	if r.Chance(1, 3) {
		// the PRVW box claims more than its uuid box holds (together with an overstated JPEG
		// length neither of the two inner limits ends a read before the outer box is exhausted)
		copy(inner, be32(len(inner)+r.Pick(1, 8, 16, 100, 2048, 4096, 1<<20, 0x7ffffff0)))
		if r.Bool() && len(inner) >= 24 {
			copy(inner[20:], be32(len(jpeg)+r.Pick(1, 16, 2048, 1<<20)))
		}
	}
	return rawBox("uuid", append(append(append([]byte{}, UUIDPreview...), be32(0)...), append(be32(1), inner...)...))
}

// BMFFShape draws one grammar-based ISOBMFF input and a short description.
func BMFFShape(r *core.Rng) ([]byte, string) {
	var out []byte
	kind := r.Intn(3)
	switch kind {
	case 0:
		out = Ftyp(r.PickStr("heic", "heix", "mif1", "avif"), 0, "mif1", r.PickStr("heic", "avif", "miaf")).Serialise(nil)
		if r.Chance(1, 3) {
			// a generic major brand with the deciding brand anywhere in a longer list of compatible
			// brands: sniffing looks at the first 24 bytes only, whatever the reader has buffered
			var cb []string
			for k := r.Range(1, 7); k > 0; k-- {
				cb = append(cb, r.PickStr("mif1", "miaf", "msf1", "MiHE", "heic", "heix", "hevc", "avif", "iso8"))
			}
			out = Ftyp(r.PickStr("mif1", "msf1", "mif1", "heic", "avif"), 0, cb...).Serialise(nil)
		}
		if r.Chance(1, 5) {
			out = append(out, rawBox("free", r.Bytes(r.Range(0, 20)))...)
		}
		out = append(out, metaShape(r)...)
		item := append([]byte{0, 0, 0, 6}, []byte(ExifPrefix)...)
		item = append(item, cmtBody(r)...)
		out = append(out, rawBox("mdat", item)...)
	case 1:
		out = Ftyp("crx ", 1, "crx ", "isom").Serialise(nil)
		moov := canonUUIDShape(r)
		if r.Chance(1, 2) {
			// an opaque box in front of the metadata box claims more than it holds (a little: into
			// its sibling; a lot: beyond moov)
			ob := rawBox(r.PickStr("free", "mvhd", "abcd", "skip"), r.Bytes(r.Range(0, 24)))
			copy(ob, be32(len(ob)+r.Pick(1, 8, 9, 100, 4000, 100000)))
			moov = append(ob, moov...)
		}
		if r.Bool() {
			moov = append(moov, rawBox("mvhd", r.Bytes(r.Range(0, 30)))...)
		}
		if r.Chance(1, 3) {
			moov = append(moov, rawBox("trak", rawBox("tkhd", r.Bytes(r.Range(0, 20))))...)
		}
		out = append(out, rawBox("moov", moov)...)
		if r.Bool() {
			x := []byte("<x:xmpmeta xmlns:x='adobe:ns:meta/'><rdf:RDF></rdf:RDF></x:xmpmeta>")
			out = append(out, rawBox("uuid", append(append([]byte{}, UUIDXPacket...), x[:r.Range(0, len(x))]...))...)
		}
		out = append(out, prvwShape(r)...)
		out = append(out, rawBox("mdat", r.Bytes(r.Range(0, 40)))...)
	default:
		out = Ftyp(r.PickStr("crx ", "heic", "avif"), 0, "mif1").Serialise(nil)
		// a meta box inside moov, a moov inside meta, and other misplaced nesting
		out = append(out, rawBox("moov", append(metaShape(r), canonUUIDShape(r)...))...)
		out = append(out, metaShape(r)...)
	}
	if r.Chance(1, 5) && len(out) > 24 {
		out = out[:r.Range(24, len(out))]
	}
	return out, fmt.Sprintf("bmffshape kind=%d len=%d", kind, len(out))
}

// TIFFShape draws a small TIFF whose directory entries combine unusual types, counts and
// offsets for the tags the Exif reader interprets (two or three cooperating fields at once).
func TIFFShape(r *core.Rng) ([]byte, string) {
	big := r.Bool()
	var o binary.ByteOrder = binary.LittleEndian
	hdr := []byte("II*\x00")
	if big {
		o, hdr = binary.BigEndian, []byte("MM\x00*")
	}
	u16 := func(v int) []byte { b := make([]byte, 2); o.PutUint16(b, uint16(v)); return b }
	u32 := func(v uint32) []byte { b := make([]byte, 4); o.PutUint32(b, v); return b }
	tagsByDir := [][]int{
		{0x010f, 0x0110, 0x0112, 0x0132, 0x013b, 0x8298, 0x8769, 0x8825, 0x014a, 0xc612, 0x927c, 0x0100, 0x0101, 0x010e, 0x0131, 0xc62f},
		{0x829a, 0x829d, 0x8822, 0x8827, 0x9003, 0x9004, 0x9010, 0x9011, 0x9012, 0x9204, 0x9207, 0x9209, 0x920a, 0x9290, 0x9291, 0x9292, 0xa002, 0xa003, 0xa402, 0xa405, 0xa430, 0xa431, 0xa432, 0xa433, 0xa434, 0xa435, 0x927c},
		{0x0000, 0x0001, 0x0002, 0x0003, 0x0004, 0x0005, 0x0006, 0x0007, 0x001d, 0x0012},
	}
	typeSize := []int{0, 1, 1, 2, 4, 8, 1, 1, 2, 4, 8, 4, 8, 4}
	total := r.Pick(120, 200, 400, 1200)
	out := make([]byte, 8, total)
	copy(out, hdr)
	copy(out[4:], u32(8))
	var outOfLine []int // positions of entries whose value is out of line
	var dir func(kind int, depth int) int
	dir = func(kind int, depth int) int {
		at := len(out)
		n := r.Range(1, 8)
		out = append(out, u16(n)...)
		entries := len(out)
		out = append(out, make([]byte, 12*n+4)...)
		for i := 0; i < n; i++ {
			tg := tagsByDir[kind][r.Intn(len(tagsByDir[kind]))]
			ty := r.Pick(1, 2, 2, 3, 3, 4, 4, 5, 5, 7, 10, 13, 0)
			cnt := uint32(r.Pick(0, 1, 1, 2, 3, 4, 5, 6, 8, 11, 20, 0x7fffffff, 0xffffffff, 0x40000001, 0x40000002, 0x40000003, 0x80000001, 0x80000002, 0x20000001, 0x20000002))
			if r.Chance(1, 10) {
				// a tag whose value lives in the slot, declared with a count of 0 (or 1) and a slot
				// full of bytes: what is reported for it must come from this entry alone
				switch kind {
				case 0:
					tg = r.Pick(0x0112, 0x0100, 0x0101, 0x0112)
				case 1:
					tg = r.Pick(0x8822, 0x9207, 0x9209, 0xa402, 0x8827, 0xa405, 0xa002)
				default:
					tg = r.Pick(0x0001, 0x0003, 0x0005)
				}
				ty = r.Pick(3, 3, 1, 2, 7, 4)
				cnt = uint32(r.Pick(0, 0, 0, 1))
			}
			e := out[entries+12*i:]
			copy(e, u16(tg))
			copy(e[2:], u16(ty))
			copy(e[4:], u32(cnt))
			ts := 1
			if ty < len(typeSize) {
				ts = typeSize[ty]
			}
			switch {
			case tg == 0x014a && r.Chance(1, 2):
				// SubIFDs as a table of 2..12 offsets: null offsets, offsets behind the reader, beyond
				// the end, and real directories
				k := r.Pick(2, 3, 6, 8, 9, 10, 12)
				if r.Chance(1, 5) {
					// hundreds of sub-directory offsets, all present (the count passes every 8-bit and
					// pending-table boundary)
					k = r.Pick(84, 85, 128, 255, 256, 257, 300, 384, 1000, 1024)
				}
				copy(e[2:], u16(4))
				copy(e[4:], u32(uint32(k)))
				copy(e[8:], u32(uint32(len(out))))
				tbl := len(out)
				out = append(out, make([]byte, 4*k)...)
				for j := 0; j < k; j++ {
					off := uint32(r.Pick(0, 0, 4, 8, total+100, 0x7fffffff))
					if depth < 1 && r.Chance(1, 4) {
						off = uint32(len(out))
						copy(out[tbl+4*j:], u32(off))
						dir(0, depth+2)
						continue
					}
					copy(out[tbl+4*j:], u32(off))
				}
			case (tg == 0x8769 || tg == 0x8825 || tg == 0x014a) && depth < 2 && r.Chance(2, 3):
				k := 1
				if tg == 0x8825 {
					k = 2
				}
				copy(e[2:], u16(4))
				copy(e[4:], u32(1))
				copy(e[8:], u32(uint32(len(out))))
				dir(k, depth+1)
			case uint64(cnt)*uint64(ts) <= 4:
				copy(e[8:], r.Bytes(4))
			default:
				// out-of-line value: at the current end (forward), possibly shorter than declared, with
				// zeros where a denominator / terminator would be expected
				outOfLine = append(outOfLine, entries+12*i)
				off := uint32(len(out))
				if r.Chance(1, 6) {
					off = uint32(r.Pick(0, 4, 8, total-1, total, total+1, 0x7fffffff))
				}
				copy(e[8:], u32(off))
				vl := int(uint64(cnt) * uint64(ts) & 0xffff)
				if vl > 64 {
					vl = r.Range(0, 64)
				}
				v := r.Bytes(vl)
				for k := range v {
					if r.Chance(1, 3) {
						v[k] = byte(r.Pick(0, 0, ':', ' ', '0', '9', 0xff))
					}
				}
				out = append(out, v...)
			}
		}
		return at
	}
	dir(0, 0)
	variant := "plain"
	switch r.Intn(6) {
	case 0:
		if len(out) > 10 {
			out = out[:r.Range(10, len(out))]
			variant = "cut"
		}
	case 1:
		// allocation attack: every out-of-line value claims megabytes that start exactly at (or
		// just before) the end of the file, so that each one is attempted in turn
		variant = "oversize"
		for _, pos := range outOfLine {
			if pos+12 > len(out) {
				continue
			}
			copy(out[pos+2:], u16(r.Pick(2, 2, 7, 1)))
			copy(out[pos+4:], u32(uint32(r.Pick(0x3ffff0, 0x3fffff, 0x3ff000, 0x200000, 0x100000)-len(out))))
			copy(out[pos+8:], u32(uint32(len(out)-r.Pick(0, 0, 0, 1))))
		}
	}
	return out, fmt.Sprintf("tiffshape big=%v variant=%s len=%d", big, variant, len(out))
}

// TIFFPendingShape builds one directory with n out-of-line values whose offsets ascend, except
// that a few late entries point below everything still pending at that moment (legal: value
// placement is free). n is drawn around the reader's pending-tag capacity (84) and the entry cap.
func TIFFPendingShape(r *core.Rng) ([]byte, string) {
	big := r.Bool()
	var o binary.ByteOrder = binary.LittleEndian
	hdr := []byte("II*\x00")
	if big {
		o, hdr = binary.BigEndian, []byte("MM\x00*")
	}
	n := r.Pick(60, 83, 84, 85, 86, 87, 100, 127, 128)
	low := r.Pick(0, 1, 1, 2, 3)
	vlen := r.Pick(5, 8, 12)
	out := make([]byte, 8, 8+2+12*n+4+(n+low)*vlen+64)
	copy(out, hdr)
	o.PutUint32(out[4:], 8)
	cnt := make([]byte, 2)
	o.PutUint16(cnt, uint16(n))
	out = append(out, cnt...)
	entries := len(out)
	out = append(out, make([]byte, 12*n+4)...)
	lowArea := len(out) // `low` values live here, before all the others
	out = append(out, r.Bytes(low*vlen)...)
	lowIdx := map[int]int{}
	for k := 0; k < low; k++ {
		lowIdx[n-1-r.Intn(n/3+1)] = k // late entries
	}
	tags := []int{0x010e, 0x0131, 0x013b, 0x8298, 0x010f, 0x0110}
	allKnown := r.Chance(1, 3) // every entry a tag whose value the reader fetches (duplicate ids are accepted)
	for i := 0; i < n; i++ {
		e := out[entries+12*i:]
		tg := 0x7000 + i
		if allKnown || r.Chance(1, 8) {
			tg = tags[r.Intn(len(tags))]
		}
		o.PutUint16(e[0:], uint16(tg))
		o.PutUint16(e[2:], 2) // ASCII
		o.PutUint32(e[4:], uint32(vlen))
		if k, ok := lowIdx[i]; ok {
			o.PutUint32(e[8:], uint32(lowArea+k*vlen))
			continue
		}
		o.PutUint32(e[8:], uint32(len(out)))
		v := make([]byte, vlen)
		for j := range v {
			v[j] = byte('a' + (i+j)%26)
		}
		v[vlen-1] = 0
		out = append(out, v...)
	}
	if r.Chance(1, 3) {
		// the file ends behind the directory (or a few values later): every reference that is
		// still pending points past the end of the input
		end := lowArea + low*vlen + r.Pick(0, 0, 1, vlen, 5*vlen)
		if end < len(out) {
			out = out[:end]
		}
		return out, fmt.Sprintf("tiffpending-cut big=%v n=%d low=%d len=%d", big, n, len(lowIdx), len(out))
	}
	return out, fmt.Sprintf("tiffpending big=%v n=%d low=%d len=%d", big, n, len(lowIdx), len(out))
}

// PNGBackShape builds a chunk stream in which one chunk's length field, read as a signed
// 32-bit number, points back to the start of an earlier chunk header (or its own), and other
// extreme lengths.
func PNGBackShape(r *core.Rng) ([]byte, string) {
	out := []byte("\x89PNG\r\n\x1a\n")
	var starts []int
	put := func(typ string, data []byte) {
		starts = append(starts, len(out))
		out = append(out, be32(len(data))...)
		out = append(out, typ...)
		out = append(out, data...)
		out = append(out, r.Bytes(4)...) // CRC (not checked by the scanner)
	}
	put("IHDR", r.Bytes(13))
	for k := r.Range(0, 3); k > 0; k-- {
		put(r.PickStr("gAMA", "tEXt", "pHYs", "iTXt"), r.Bytes(r.Range(0, 40)))
	}
	starts = append(starts, len(out)) // the attacking chunk's own header
	target := starts[r.Intn(len(starts))]
	after := len(out) + 8
	var length uint32
	switch r.Intn(4) {
	case 0, 1: // after + int32(length) + 4 == target
		length = uint32(int32(target - after - 4))
	case 2:
		length = uint32(int32(target - after)) // forgets the CRC
	default:
		length = uint32(r.Pick(0x7fffffff, 0x80000000, 0xfffffffc, 0xfffffff8, 0xffffffff))
	}
	out = append(out, be32(int(length))...)
	out = append(out, r.PickStr("tEXt", "eXIf", "IDAT", "zTXt")...)
	out = append(out, r.Bytes(r.Range(0, 64))...)
	if r.Bool() {
		put("eXIf", append([]byte("II*\x00\x08\x00\x00\x00\x00\x00"), r.Bytes(8)...))
		put("IEND", nil)
	}
	return out, fmt.Sprintf("pngback target=%d length=%#x len=%d", target, length, len(out))
}

// XMPShape is a generated packet (xpacket wrapper present, so a trailer follows the root
// element) damaged at token level: an end tag removed, the root end tag removed, a processing
// instruction / comment / CDATA section / stray '<' inserted between elements, two end tags
// swapped, a start tag duplicated, or the packet cut.
func XMPShape(r *core.Rng) ([]byte, string) {
	st := RandXMPStyle(r, r.Bool())
	st.Leading = "<?xpacket begin=\"\xef\xbb\xbf\" id=\"W5M0MpCehiHzreSzNTczkc9d\"?>\n"
	pk := string(GenXMPRec(r, 50, 120).Serialise(r, st, r.Intn(3)))
	// token boundaries: positions of '<'
	var lt []int
	for i := 0; i < len(pk); i++ {
		if pk[i] == '<' {
			lt = append(lt, i)
		}
	}
	ops := ""
	for k := r.Range(1, 3); k > 0 && len(lt) > 4; k-- {
		p := lt[r.Range(2, len(lt)-1)]
		switch op := r.Intn(8); op {
		case 0: // remove an end tag
			var ends []int
			for _, q := range lt {
				if q+1 < len(pk) && pk[q+1] == '/' {
					ends = append(ends, q)
				}
			}
			if len(ends) > 0 {
				q := ends[r.Intn(len(ends))]
				e := q
				for e < len(pk) && pk[e] != '>' {
					e++
				}
				if e < len(pk) {
					pk = pk[:q] + pk[e+1:]
				}
				ops += "del-endtag;"
			}
		case 1: // remove the root end tag (the trailer then follows an open element)
			if i := indexOf(pk, "</x:xmpmeta"); i >= 0 {
				e := i
				for e < len(pk) && pk[e] != '>' {
					e++
				}
				if e < len(pk) {
					pk = pk[:i] + pk[e+1:]
				}
				ops += "del-root-end;"
			}
		case 2:
			pk = pk[:p] + r.PickStr("<?pi x?>", "<?xpacket end=\"w\"?>", "<?", "<? ?>", "<?x") + pk[p:]
			ops += "ins-pi;"
		case 3:
			pk = pk[:p] + r.PickStr("<!-- c -->", "<!--", "<![CDATA[x]]>", "<!DOCTYPE x>") + pk[p:]
			ops += "ins-comment;"
		case 4:
			pk = pk[:p] + r.PickStr("<", "<<", "< ", "</", "</>", "<>", "<a", "<a:b", "<a:b ") + pk[p:]
			ops += "ins-lt;"
		case 5: // duplicate a start tag
			e := p
			for e < len(pk) && pk[e] != '>' {
				e++
			}
			if e < len(pk) {
				pk = pk[:p] + pk[p:e+1] + pk[p:]
			}
			ops += "dup-tag;"
		case 6:
			pk = pk[:r.Range(40, len(pk))]
			ops += "cut;"
		default: // an attribute without value / with a lone quote
			pk = pk[:p] + r.PickStr("<rdf:Description a", "<rdf:Description a=", "<rdf:Description a='", "<rdf:li xml:lang") + pk[p:]
			ops += "ins-attr;"
		}
		lt = lt[:0]
		for i := 0; i < len(pk); i++ {
			if pk[i] == '<' {
				lt = append(lt, i)
			}
		}
	}
	return []byte(pk), fmt.Sprintf("xmpshape ops=%s len=%d", ops, len(pk))
}

func indexOf(s, sub string) int {
	for i := 0; i+len(sub) <= len(s); i++ {
		if s[i:i+len(sub)] == sub {
			return i
		}
	}
	return -1
}

// ManyBlocksShape is a well-formed file with hundreds or thousands of minimal Exif blocks: a
// JPEG with that many tiny Exif APP1 segments, or a CR3 whose Canon box holds that many CMT
// boxes. Each block alone is ordinary; what a decoder allocates or keeps per block adds up.
func ManyBlocksShape(r *core.Rng) ([]byte, string) {
	n := r.Pick(300, 1000, 1800, 2500)
	tiff := func() []byte {
		if r.Bool() {
			return []byte("II*\x00\x08\x00\x00\x00\x00\x00\x00\x00\x00\x00")
		}
		return []byte("MM\x00*\x00\x00\x00\x08\x00\x00\x00\x00\x00\x00")
	}
	if r.Bool() {
		out := []byte{0xFF, 0xD8}
		for i := 0; i < n; i++ {
			p := append([]byte(ExifPrefix), tiff()...)
			out = append(out, 0xFF, 0xE1, byte((len(p)+2)>>8), byte(len(p)+2))
			out = append(out, p...)
		}
		out = append(out, 0xFF, 0xDB, 0x00, 0x43, 0x00)
		out = append(out, make([]byte, 64+80)...)
		out = append(out, 0xFF, 0xD9)
		return out, fmt.Sprintf("manyblocks jpeg n=%d len=%d", n, len(out))
	}
	var kids []byte
	kids = append(kids, rawBox("CNCV", []byte("CanonCR3_001/00.09.00/00.00.00"))...)
	for i := 0; i < n; i++ {
		kids = append(kids, rawBox([]string{"CMT1", "CMT2", "CMT4", "CMT3"}[i%4], tiff())...)
	}
	out := Ftyp("crx ", 1, "crx ", "isom").Serialise(nil)
	out = append(out, rawBox("moov", rawBox("uuid", append(append([]byte{}, UUIDCanonMeta...), kids...)))...)
	out = append(out, rawBox("mdat", r.Bytes(64))...)
	return out, fmt.Sprintf("manyblocks cr3 n=%d len=%d", n, len(out))
}

// Shape draws one grammar-based hostile input of any family.
func Shape(r *core.Rng) ([]byte, string) {
	switch r.Intn(12) {
	case 0, 1, 2:
		return TIFFShape(r)
	case 3:
		t, d := TIFFPendingShape(r)
		if r.Chance(1, 3) {
			// the same directory as the CMT1 block of a CR3 file (or the Exif item of a HEIF file)
			// whose boxes announce the whole block, the file ending somewhere inside it: the Exif
			// reader meets the end of its source through a box
			full, _ := TIFFPendingShape(r)
			cutAt := len(full) - r.Pick(0, 1, 5, len(full)/4, len(full)/2)
			if r.Chance(2, 3) && len(full) > 16 {
				// right behind the directory (or a few values later): nearly every reference is pending
				nEnt := int(full[8]) | int(full[9])<<8
				if full[0] == 'M' {
					nEnt = int(full[8])<<8 | int(full[9])
				}
				if e := 8 + 2 + 12*nEnt + 4 + r.Pick(0, 1, 10, 60); e < len(full) {
					cutAt = e
				}
			}
			if r.Bool() {
				out := Ftyp("crx ", 1, "crx ", "isom").Serialise(nil)
				out = append(out, rawBox("moov", rawBox("uuid", append(append([]byte{}, UUIDCanonMeta...), rawBox("CMT1", full)...)))...)
				return out[:len(out)-(len(full)-cutAt)], "cr3-" + d + fmt.Sprintf(" cut=%d", len(full)-cutAt)
			}
			h := BuildHEIF(r, full, r.Intn(16))
			if i := bytes.Index(h, full[:16]); i >= 0 {
				return h[:i+cutAt], "heif-" + d + fmt.Sprintf(" cut=%d", len(full)-cutAt)
			}
		}
		return t, d
	case 4:
		return PNGBackShape(r)
	case 5:
		return AlignedCR3Shape(r)
	case 6, 7:
		return XMPShape(r)
	case 8:
		if r.Chance(1, 3) {
			return ManyBlocksShape(r)
		}
	}
	return BMFFShape(r)
}

// AlignedCR3Shape is a well-formed generated CR3 (64-bit box headers allowed) in which the header
// of a nested box sits 0..40 bytes before a 4 KiB boundary of the stream.
func AlignedCR3Shape(r *core.Rng) ([]byte, string) {
	mk := func() []byte {
		t, _, _ := SynthPayload(r, r.Bool(), 2)
		return t
	}
	p := CR3Parts{CMT1: mk(), CMT2: mk(), XMP: []byte("<x:xmpmeta xmlns:x='adobe:ns:meta/'><rdf:RDF></rdf:RDF></x:xmpmeta>"), Align: 1 + r.Intn(41)}
	if r.Bool() {
		p.CMT4 = mk()
	}
	if r.Bool() {
		p.Preview = append([]byte{0xFF, 0xD8}, r.Bytes(r.Range(0, 3000))...)
	}
	c := BuildCR3(r, p, r.Pick(0, 1, 2), true)
	return c.Bytes, fmt.Sprintf("alignedcr3 align=%d len=%d", p.Align-1, len(c.Bytes))
}
