// Package obs turns library results into canonical, comparable observations.
package obs

import (
	"crypto/sha256"
	"encoding/hex"
	"fmt"
	"math"
	"reflect"
	"sort"
	"strings"
	"time"

	"github.com/evanoberholster/imagemeta/exif2"
	"github.com/evanoberholster/imagemeta/xmp"
)

// Map is field -> canonical string.
type Map map[string]string

// putTime stores a time under four keys so that checks can choose what to compare: wall-clock
// digits, zone offset, zone name (not fixed by the Exif specification) and the instant.
func putTime(out Map, key string, t time.Time) {
	name, off := t.Zone()
	out[key+".wall"] = t.Format("2006-01-02T15:04:05.000000000")
	out[key+".off"] = fmt.Sprintf("%d", off)
	out[key+".zone"] = name
	out[key+".unix"] = fmt.Sprintf("%d.%09d", t.Unix(), t.Nanosecond())
}

// PutTime is exported for expectation builders.
func PutTime(out Map, key string, t time.Time) { putTime(out, key, t) }

// Value canonicalises any value the way struct fields are canonicalised.
func Value(v any) string {
	m := Map{}
	walk("v", reflect.ValueOf(v), m)
	return m["v"]
}

func scalar(v reflect.Value) (string, bool) {
	switch v.Kind() {
	case reflect.String:
		return "s:" + v.String(), true
	case reflect.Bool:
		return fmt.Sprintf("b:%v", v.Bool()), true
	case reflect.Int, reflect.Int8, reflect.Int16, reflect.Int32, reflect.Int64:
		return fmt.Sprintf("i:%d", v.Int()), true
	case reflect.Uint, reflect.Uint8, reflect.Uint16, reflect.Uint32, reflect.Uint64:
		return fmt.Sprintf("u:%d", v.Uint()), true
	case reflect.Float32:
		return fmt.Sprintf("f32:%08x", math.Float32bits(float32(v.Float()))), true
	case reflect.Float64:
		return fmt.Sprintf("f64:%016x", math.Float64bits(v.Float())), true
	}
	return "", false
}

func walk(prefix string, v reflect.Value, out Map) {
	if !v.IsValid() {
		return
	}
	if v.Type() == reflect.TypeOf(time.Time{}) {
		if v.CanInterface() {
			putTime(out, prefix, v.Interface().(time.Time))
		}
		return
	}
	if s, ok := scalar(v); ok {
		out[prefix] = s
		return
	}
	switch v.Kind() {
	case reflect.Struct:
		t := v.Type()
		for i := 0; i < v.NumField(); i++ {
			f := t.Field(i)
			if f.PkgPath != "" { // unexported
				continue
			}
			walk(prefix+"."+f.Name, v.Field(i), out)
		}
	case reflect.Slice, reflect.Array:
		if v.Kind() == reflect.Slice && v.Type().Elem().Kind() == reflect.Uint8 {
			out[prefix] = "bytes:" + hex.EncodeToString(v.Bytes())
			return
		}
		var parts []string
		for i := 0; i < v.Len(); i++ {
			sub := Map{}
			walk("", v.Index(i), sub)
			keys := make([]string, 0, len(sub))
			for k := range sub {
				keys = append(keys, k)
			}
			sort.Strings(keys)
			var sb strings.Builder
			for _, k := range keys {
				sb.WriteString(k + "=" + sub[k] + ";")
			}
			parts = append(parts, sb.String())
		}
		out[prefix] = fmt.Sprintf("[%d]{%s}", v.Len(), strings.Join(parts, ","))
	case reflect.Interface, reflect.Ptr:
		if v.IsNil() {
			out[prefix] = "nil"
		} else {
			walk(prefix, v.Elem(), out)
		}
	}
}

// Exif observes every exported field plus the accessors that expose unexported state.
func Exif(e exif2.Exif) Map {
	out := Map{}
	walk("Exif", reflect.ValueOf(e), out)
	putTime(out, "ModifyDate()", e.ModifyDate())
	putTime(out, "DateTimeOriginal()", e.DateTimeOriginal())
	putTime(out, "CreateDate()", e.CreateDate())
	out["GPS.Latitude()"] = fmt.Sprintf("f64:%016x", math.Float64bits(e.GPS.Latitude()))
	out["GPS.Longitude()"] = fmt.Sprintf("f64:%016x", math.Float64bits(e.GPS.Longitude()))
	out["GPS.Altitude()"] = fmt.Sprintf("f32:%08x", math.Float32bits(e.GPS.Altitude()))
	putTime(out, "GPS.Date()", e.GPS.Date())
	return out
}

// XMP observes an xmp.XMP.
func XMP(x xmp.XMP) Map {
	out := Map{}
	walk("XMP", reflect.ValueOf(x), out)
	return out
}

// Err canonicalises an error.
func Err(err error) string {
	if err == nil {
		return "nil"
	}
	return "err:" + err.Error()
}

// Bytes canonicalises a byte slice result.
func Bytes(b []byte) string {
	if b == nil {
		return "nil"
	}
	h := sha256.Sum256(b)
	return fmt.Sprintf("len=%d sha=%s", len(b), hex.EncodeToString(h[:8]))
}

// String renders a Map deterministically.
func (m Map) String() string {
	keys := make([]string, 0, len(m))
	for k := range m {
		keys = append(keys, k)
	}
	sort.Strings(keys)
	var sb strings.Builder
	for _, k := range keys {
		sb.WriteString(k)
		sb.WriteByte('=')
		sb.WriteString(m[k])
		sb.WriteByte('\n')
	}
	return sb.String()
}

// Diff lists the keys on which two observations differ (at most max entries).
func Diff(a, b Map, max int) []string {
	keys := map[string]struct{}{}
	for k := range a {
		keys[k] = struct{}{}
	}
	for k := range b {
		keys[k] = struct{}{}
	}
	ks := make([]string, 0, len(keys))
	for k := range keys {
		ks = append(ks, k)
	}
	sort.Strings(ks)
	var out []string
	for _, k := range ks {
		if a[k] != b[k] {
			out = append(out, fmt.Sprintf("%s: %q vs %q", k, clip(a[k], 120), clip(b[k], 120)))
			if len(out) >= max {
				break
			}
		}
	}
	return out
}

func clip(s string, n int) string {
	if len(s) > n {
		return s[:n] + "…"
	}
	return s
}

// Without returns a copy lacking the given keys.
func (m Map) Without(keys ...string) Map {
	o := Map{}
	for k, v := range m {
		o[k] = v
	}
	for _, k := range keys {
		delete(o, k)
	}
	return o
}
