package core

import (
	"fmt"
	"os"
	"runtime"
	"runtime/debug"
	"strings"
	"sync/atomic"
	"syscall"
	"time"
)

// Engine is one property's workload + oracle.
type Engine interface {
	ID() string
	Level() string // evidence level
	Rule() string  // how cases are generated and what counts as non-trivial / distinct
	Assumptions() []string
	// Plan returns the number of cases for (tier, seed). Cases are index-addressed and each is a
	// pure function of (seed, tier, index).
	Plan(tier string, seed uint64) int
	// Run executes case idx and reports to c.Rec.
	Run(c *Ctx, idx int)
}

// Optional engine capabilities.
type (
	// NeedsRace engines are run from the -race build with GORACE logging.
	NeedsRace interface{ NeedsRace() bool }
	// WorkerCount overrides the number of worker processes.
	WorkerCount interface{ Workers(tier string) int }
	// CPUBudgeter gives the per-case CPU budget; exceeding it is reported by HangKey.
	CPUBudgeter interface {
		CPUBudget(tier string, idx int) time.Duration
	}
	// Finisher lets the engine add evidence keys / final verdicts in the driver after merge.
	Finisher interface {
		Finish(sum *Summary)
	}
	// WorkerInit runs once in each worker process before the first case.
	WorkerInit interface{ InitWorker(c *Ctx) }
	// Exhaustive reports whether the run enumerated a finite space completely.
	Exhaustive interface{ Exhaustive(tier string) bool }
	// MinNontrivial is the floor of distinct non-trivial signatures below which the run is
	// considered broken (a monitor that saw nothing must not pass).
	MinNontrivial interface{ MinNontrivial(tier string) int }
)

// Ctx is what a case sees.
type Ctx struct {
	Prop     string
	Tier     string
	Seed     uint64
	Rec      *Recorder
	Replay   bool
	RunDir   string
	WorkerID int
	// Phase is a free-form marker the engine may set so that a fatal crash / hang can be
	// attributed more precisely ("entry=Decode reader=eof-at-17").
	phase atomic.Value
	ws    *workerState
}

// StartCall restarts the CPU-time watchdog for one library call with its own budget, so that
// "still running after its budget" is decided per call and not per case.
func (c *Ctx) StartCall(budget time.Duration) {
	if c.ws == nil {
		return
	}
	c.ws.setWindow(int64(budget))
}

func (c *Ctx) SetPhase(s string) { c.phase.Store(s) }
func (c *Ctx) Phase() string {
	if v := c.phase.Load(); v != nil {
		return v.(string)
	}
	return ""
}

// Rng returns the deterministic stream of case idx.
func (c *Ctx) Rng(idx int, extra ...uint64) *Rng {
	co := append([]uint64{HashStr(c.Prop), uint64(idx)}, extra...)
	return NewRng(c.Seed, co...)
}

// Thorough reports whether the tier is thorough.
func (c *Ctx) Thorough() bool { return c.Tier == "thorough" }

// PanicKey derives a specific finding key from a recovered panic: the innermost imagemeta frame
// and the panic class.
func PanicKey(v any, stack []byte) string {
	class := "panic"
	msg := fmt.Sprint(v)
	switch {
	case strings.Contains(msg, "index out of range"):
		class = "index"
	case strings.Contains(msg, "slice bounds out of range"):
		class = "slice"
	case strings.Contains(msg, "nil pointer"):
		class = "nil"
	case strings.Contains(msg, "divide by zero"):
		class = "div0"
	case strings.Contains(msg, "interface conversion"):
		class = "ifaceconv"
	case strings.Contains(msg, "makeslice"):
		class = "makeslice"
	default:
		if len(msg) > 40 {
			msg = msg[:40]
		}
		class = "msg(" + msg + ")"
	}
	return "panic:" + InnermostFrame(stack) + ":" + class
}

// InnermostFrame returns the first function in a stack trace that belongs to imagemeta.
func InnermostFrame(stack []byte) string {
	for _, ln := range strings.Split(string(stack), "\n") {
		ln = strings.TrimSpace(ln)
		if strings.HasPrefix(ln, "github.com/evanoberholster/imagemeta") {
			if i := strings.LastIndex(ln, "("); i > 0 {
				ln = ln[:i]
			}
			return strings.TrimPrefix(ln, "github.com/evanoberholster/imagemeta")
		}
	}
	return "?"
}

// Guard runs f and converts an escaping panic into (panicked=true, key, text).
func Guard(f func()) (panicked bool, key string, text string) {
	defer func() {
		if v := recover(); v != nil {
			st := debug.Stack()
			panicked = true
			key = PanicKey(v, st)
			text = fmt.Sprintf("%v\n%s", v, trimStack(st))
		}
	}()
	f()
	return
}

func trimStack(st []byte) string {
	lines := strings.Split(string(st), "\n")
	if len(lines) > 40 {
		lines = lines[:40]
	}
	return strings.Join(lines, "\n")
}

// CPUTime is the process's user+system CPU time so far.
func CPUTime() time.Duration { return cpuTime() }

func cpuTime() time.Duration {
	var ru syscall.Rusage
	if err := syscall.Getrusage(syscall.RUSAGE_SELF, &ru); err != nil {
		return 0
	}
	return time.Duration(ru.Utime.Nano() + ru.Stime.Nano())
}

// worker state shared with the watchdog goroutine
type workerState struct {
	curIndex atomic.Int64
	// window is the CPU-time window of the call in progress: its budget and the process CPU time
	// at its start, replaced as ONE value. (Two separate atomics let the watchdog pair the CPU
	// already used by a long, legitimate call with the small budget of the call after it.)
	window atomic.Pointer[callWindow]
	busy   atomic.Bool
}

type callWindow struct{ budget, start int64 }

func (ws *workerState) setWindow(budget int64) {
	ws.window.Store(&callWindow{budget: budget, start: int64(cpuTime())})
}

// RunWorker executes cases from..to (step stride) of engine e in this process.
func RunWorker(e Engine, c *Ctx, from, to, stride int, outPath, progressPath, hangPath string) int {
	rec := c.Rec
	if wi, ok := e.(WorkerInit); ok {
		wi.InitWorker(c)
	}
	pf, err := os.OpenFile(progressPath, os.O_CREATE|os.O_WRONLY|os.O_TRUNC, 0o644)
	if err != nil {
		fmt.Fprintln(os.Stderr, "progress file:", err)
		return 2
	}
	defer pf.Close()
	st := &workerState{}
	st.curIndex.Store(-1)
	c.ws = st
	var budgeter CPUBudgeter
	if b, ok := e.(CPUBudgeter); ok {
		budgeter = b
	}
	// CPU-time watchdog: process CPU consumed while one case is running. Load independent.
	go func() {
		lastCPU, lastMove := cpuTime(), time.Now()
		for {
			time.Sleep(50 * time.Millisecond)
			if !st.busy.Load() {
				lastCPU, lastMove = cpuTime(), time.Now()
				continue
			}
			// idle-deadlock rule: a case is running, yet the whole process has burnt (almost) no CPU
			// (under 1% of one core) over a two-minute window and some goroutine is parked under an imagemeta frame. CPU-idle is
			// what separates this from a slow machine; without an imagemeta frame it is the
			// harness that waits and the driver's wall-clock watchdog (inconclusive) applies.
			if time.Since(lastMove) < 120*time.Second {
				// window still open
			} else if now := cpuTime(); now-lastCPU > 1200*time.Millisecond {
				lastCPU, lastMove = now, time.Now() // more than 1% of one core over the window: working
			} else {
				buf := make([]byte, 1<<20)
				n := runtime.Stack(buf, true)
				dump := string(buf[:n])
				if strings.Contains(dump, "github.com/evanoberholster/imagemeta") {
					idx := int(st.curIndex.Load())
					msg := fmt.Sprintf("%d\n%s\nidle-deadlock no_cpu_for_s=%.0f\n%s", idx, c.Phase(), time.Since(lastMove).Seconds(), dump)
					_ = os.WriteFile(hangPath, []byte(msg), 0o644)
					_ = rec.flush(outPath, false, idx)
					os.Exit(4)
				}
				lastCPU, lastMove = cpuTime(), time.Now()
			}
			w := st.window.Load()
			if w == nil {
				continue
			}
			used, b := int64(cpuTime())-w.start, w.budget
			if b > 0 && used > b && st.window.Load() == w {
				idx := int(st.curIndex.Load())
				buf := make([]byte, 1<<20)
				n := runtime.Stack(buf, true)
				msg := fmt.Sprintf("%d\n%s\ncpu_used_ns=%d budget_ns=%d\n%s", idx, c.Phase(), used, b, buf[:n])
				_ = os.WriteFile(hangPath, []byte(msg), 0o644)
				_ = rec.flush(outPath, false, idx)
				os.Exit(3)
			}
		}
	}()
	var ibuf [32]byte
	lastFlush := time.Now()
	n := 0
	for idx := from; idx < to; idx += stride {
		b := fmt.Appendf(ibuf[:0], "%-20d\n", idx)
		_, _ = pf.WriteAt(b, 0)
		rec.mu.Lock()
		rec.Index = idx
		rec.mu.Unlock()
		budget := 60 * time.Second
		if budgeter != nil {
			budget = budgeter.CPUBudget(c.Tier, idx)
		}
		st.curIndex.Store(int64(idx))
		st.setWindow(int64(budget))
		st.busy.Store(true)
		panicked, key, text := Guard(func() { e.Run(c, idx) })
		st.busy.Store(false)
		if panicked {
			// A panic escaping an engine's own guard: attribute it to the case.
			rec.Violation(key, "panic escaped during case: "+firstLine(text), map[string]any{"phase": c.Phase(), "panic": text})
		}
		n++
		if n%256 == 0 && time.Since(lastFlush) > 3*time.Second {
			_ = rec.flush(outPath, false, idx)
			lastFlush = time.Now()
		}
	}
	if err := rec.flush(outPath, true, to); err != nil {
		fmt.Fprintln(os.Stderr, "flush:", err)
		return 2
	}
	return 0
}

func firstLine(s string) string {
	if i := strings.IndexByte(s, '\n'); i >= 0 {
		return s[:i]
	}
	return s
}
