package core

import (
	"bufio"
	"encoding/json"
	"fmt"
	"os"
	"os/exec"
	"path/filepath"
	"regexp"
	"sort"
	"strconv"
	"strings"
	"sync"
	"time"
)

// Summary is the merged view of a run, handed to Finisher and written as evidence.
type Summary struct {
	Prop         string
	Tier         string
	Seed         uint64
	Cases        int
	Evals        int64
	Sigs         map[uint64]struct{}
	SigExamples  []string
	Samples      []json.RawMessage
	Violations   []Violation
	Inconclusive []string
	Counters     map[string]int64
	Maxes        map[string]float64
	Sets         map[string]map[uint64]struct{}
	Extra        map[string]any
	Wall         float64
}

type DriverOpts struct {
	VerifDir string
	Self     string // path of the normal binary
	SelfRace string // path of the -race binary
	Tier     string
	Seed     uint64
	Workers  int
	Replay   string
}

type knownFinding struct {
	Prop, Key, Desc string
	Hit             bool
}

func loadKnown(path string) ([]*knownFinding, error) {
	f, err := os.Open(path)
	if err != nil {
		if os.IsNotExist(err) {
			return nil, nil
		}
		return nil, err
	}
	defer f.Close()
	var out []*knownFinding
	re := regexp.MustCompile(`^known:\s+property=(\S+)\s+key=(\S+)\s+(.*)$`)
	sc := bufio.NewScanner(f)
	for sc.Scan() {
		ln := strings.TrimSpace(sc.Text())
		if m := re.FindStringSubmatch(ln); m != nil {
			out = append(out, &knownFinding{Prop: m[1], Key: m[2], Desc: m[3]})
		}
	}
	return out, sc.Err()
}

type replayFile struct {
	Prop   string          `json:"property"`
	Tier   string          `json:"tier"`
	Seed   uint64          `json:"seed"`
	Index  int             `json:"index"`
	Key    string          `json:"key"`
	What   string          `json:"what"`
	Detail json.RawMessage `json:"detail,omitempty"`
	How    string          `json:"how_to_replay"`
}

// Drive runs engine e to completion and returns the process exit code.
func Drive(e Engine, o DriverOpts) int {
	start := time.Now()
	prop := e.ID()
	runDir := filepath.Join(o.VerifDir, ".run", prop)
	_ = os.RemoveAll(runDir)
	if err := os.MkdirAll(runDir, 0o755); err != nil {
		fmt.Fprintln(os.Stderr, err)
		return 2
	}
	defer os.RemoveAll(runDir)

	tier, seed := o.Tier, o.Seed
	replayIdx := -1
	if o.Replay != "" {
		b, err := os.ReadFile(o.Replay)
		if err != nil {
			fmt.Fprintln(os.Stderr, "replay:", err)
			return 2
		}
		var rf replayFile
		if err := json.Unmarshal(b, &rf); err != nil {
			fmt.Fprintln(os.Stderr, "replay:", err)
			return 2
		}
		if rf.Prop != prop {
			fmt.Fprintf(os.Stderr, "replay file is for %s, not %s\n", rf.Prop, prop)
			return 2
		}
		tier, seed, replayIdx = rf.Tier, rf.Seed, rf.Index
	}

	total := e.Plan(tier, seed)
	workers := o.Workers
	if wc, ok := e.(WorkerCount); ok {
		workers = wc.Workers(tier)
	}
	if workers > total {
		workers = total
	}
	if workers < 1 {
		workers = 1
	}
	bin := o.Self
	race := false
	if nr, ok := e.(NeedsRace); ok && nr.NeedsRace() {
		bin, race = o.SelfRace, true
	}

	sum := &Summary{Prop: prop, Tier: tier, Seed: seed, Cases: total, Sigs: map[uint64]struct{}{},
		Counters: map[string]int64{}, Maxes: map[string]float64{}, Sets: map[string]map[uint64]struct{}{}, Extra: map[string]any{}}
	var mu sync.Mutex
	merge := func(w *workerResult) {
		mu.Lock()
		defer mu.Unlock()
		sum.Evals += w.Evals
		for _, h := range w.Sigs {
			sum.Sigs[h] = struct{}{}
		}
		for _, s := range w.SigExamples {
			if len(sum.SigExamples) < 12 {
				sum.SigExamples = append(sum.SigExamples, s)
			}
		}
		for _, s := range w.Samples {
			if len(sum.Samples) < 6 {
				sum.Samples = append(sum.Samples, s)
			}
		}
		sum.Violations = append(sum.Violations, w.Violations...)
		sum.Inconclusive = append(sum.Inconclusive, w.Inconclusive...)
		for k, v := range w.Counters {
			sum.Counters[k] += v
		}
		for k, v := range w.Maxes {
			if old, ok := sum.Maxes[k]; !ok || v > old {
				sum.Maxes[k] = v
			}
		}
		for k, s := range w.Sets {
			m := sum.Sets[k]
			if m == nil {
				m = map[uint64]struct{}{}
				sum.Sets[k] = m
			}
			for _, h := range s {
				m[h] = struct{}{}
			}
		}
	}
	addViolation := func(v Violation) {
		mu.Lock()
		sum.Violations = append(sum.Violations, v)
		mu.Unlock()
	}
	addInconcl := func(s string) {
		mu.Lock()
		sum.Inconclusive = append(sum.Inconclusive, s)
		mu.Unlock()
	}

	runShard := func(w int) {
		from := w
		stride := workers
		to := total
		if replayIdx >= 0 {
			from, to, stride = replayIdx, replayIdx+1, 1
		}
		part := 0
		abnormal := 0
		for from < to {
			part++
			base := filepath.Join(runDir, fmt.Sprintf("w%02d.p%03d", w, part))
			outPath, progPath, hangPath := base+".json", base+".progress", base+".hang"
			args := []string{"-worker", "-prop", prop, "-tier", tier, "-seed", strconv.FormatUint(seed, 10),
				"-from", strconv.Itoa(from), "-to", strconv.Itoa(to), "-stride", strconv.Itoa(stride),
				"-out", outPath, "-progress", progPath, "-hang", hangPath, "-rundir", runDir, "-wid", strconv.Itoa(w)}
			if replayIdx >= 0 {
				args = append(args, "-replaying")
			}
			cmd := exec.Command(bin, args...)
			so, _ := os.Create(base + ".stdout")
			se, _ := os.Create(base + ".stderr")
			cmd.Stdout, cmd.Stderr = so, se
			cmd.Env = append(os.Environ(), "VERIF_WORKER=1")
			if race {
				cmd.Env = append(cmd.Env, "GORACE=halt_on_error=0 exitcode=0 history_size=2 log_path="+filepath.Join(runDir, fmt.Sprintf("race.w%02d.p%03d", w, part)))
			}
			if err := cmd.Start(); err != nil {
				addInconcl("cannot start worker: " + err.Error())
				so.Close()
				se.Close()
				return
			}
			done := make(chan error, 1)
			go func() { done <- cmd.Wait() }()
			var werr error
			timedOut := false
			wall := 45 * time.Minute
			if tier == "thorough" {
				wall = 3 * time.Hour
			}
			select {
			case werr = <-done:
			case <-time.After(wall):
				timedOut = true
				_ = cmd.Process.Signal(os.Interrupt)
				_ = cmd.Process.Kill()
				werr = <-done
			}
			so.Close()
			se.Close()
			// read whatever the worker flushed
			var wr workerResult
			if b, err := os.ReadFile(outPath); err == nil {
				_ = json.Unmarshal(b, &wr)
			}
			merge(&wr)
			if werr == nil && wr.Done {
				return
			}
			// abnormal end: which case?
			cur := -1
			if b, err := os.ReadFile(progPath); err == nil {
				if v, err := strconv.Atoi(strings.TrimSpace(string(b))); err == nil {
					cur = v
				}
			}
			if timedOut {
				addInconcl(fmt.Sprintf("worker %d: wall-clock watchdog fired at case %d (inconclusive, not a violation)", w, cur))
				return
			}
			exit := -1
			if cmd.ProcessState != nil {
				exit = cmd.ProcessState.ExitCode()
			}
			stderrTail := tailFile(base+".stderr", 12000)
			if hb, err := os.ReadFile(hangPath); err == nil && exit == 4 {
				lines := strings.SplitN(string(hb), "\n", 4)
				phase, dump := safeIdx(lines, 1), safeIdx(lines, 3)
				addViolation(Violation{Prop: prop, Key: "deadlock:" + blockedFrame(dump), Msg: "case made no progress while the process was CPU-idle (goroutines parked under imagemeta frames): " + phase + " " + safeIdx(lines, 2),
					Tier: tier, Seed: seed, Index: cur, Detail: mustJSON(map[string]any{"phase": phase, "goroutines": clip(dump, 8000)})})
			} else if hb, err := os.ReadFile(hangPath); err == nil && exit == 3 {
				lines := strings.SplitN(string(hb), "\n", 4)
				phase := ""
				if len(lines) > 1 {
					phase = lines[1]
				}
				dump := ""
				if len(lines) > 3 {
					dump = lines[3]
				}
				fr := hangFrame(dump)
				addViolation(Violation{Prop: prop, Key: "hang:" + fr, Msg: "case exceeded its CPU-time budget (no return): " + phase + " " + safeIdx(lines, 2),
					Tier: tier, Seed: seed, Index: cur, Detail: mustJSON(map[string]any{"phase": phase, "goroutines": clip(dump, 6000)})})
			} else if cur >= 0 {
				// the key names the library frame that was running: in a deep recursion that frame
				// stands far down the crash report, so the whole report (up to 8 MiB) is searched
				keySrc := stderrTail
				if fb, err := os.ReadFile(base + ".stderr"); err == nil && len(fb) < 8<<20 {
					keySrc = string(fb)
				}
				key, what := crashKey(keySrc, exit)
				addViolation(Violation{Prop: prop, Key: key, Msg: "worker process died during case: " + what,
					Tier: tier, Seed: seed, Index: cur, Detail: mustJSON(map[string]any{"exit": exit, "stderr_tail": clip(stderrTail, 6000)})})
			} else {
				addInconcl(fmt.Sprintf("worker %d ended abnormally before its first case (exit %d): %s", w, exit, clip(stderrTail, 400)))
				return
			}
			if cur < 0 {
				return
			}
			abnormal++
			if exit == 4 {
				abnormal += 2 // an idle deadlock costs a two-minute window each time
			}
			if abnormal >= 6 {
				// every abnormal end is already reported as a violation; the rest of this shard
				// would mostly repeat it at the price of one CPU budget per case
				addInconcl(fmt.Sprintf("worker %d: shard stopped after %d abnormal worker ends (each reported above); cases from %d on were not run", w, abnormal, cur+stride))
				return
			}
			from = cur + stride
		}
	}

	var wg sync.WaitGroup
	nshards := workers
	if replayIdx >= 0 {
		nshards = 1
	}
	for w := 0; w < nshards; w++ {
		wg.Add(1)
		go func(w int) { defer wg.Done(); runShard(w) }(w)
	}
	wg.Wait()

	if race {
		collectRaces(runDir, sum, prop, tier, seed)
	}
	if f, ok := e.(Finisher); ok {
		f.Finish(sum)
	}
	sum.Wall = time.Since(start).Seconds()

	// verdicts
	known, err := loadKnown(filepath.Join(o.VerifDir, "KNOWN_FINDINGS.txt"))
	if err != nil {
		fmt.Fprintln(os.Stderr, "KNOWN_FINDINGS.txt:", err)
		return 2
	}
	sort.SliceStable(sum.Violations, func(i, j int) bool { return sum.Violations[i].Index < sum.Violations[j].Index })
	var unlisted []Violation
	knownHit := map[string]*knownFinding{}
	for _, v := range sum.Violations {
		matched := false
		for _, k := range known {
			if k.Prop == prop && k.Key == v.Key {
				k.Hit = true
				knownHit[k.Key] = k
				matched = true
			}
		}
		if !matched {
			unlisted = append(unlisted, v)
		}
	}
	minNT := 2
	if m, ok := e.(MinNontrivial); ok {
		minNT = m.MinNontrivial(tier)
	}

	if replayIdx < 0 {
		if err := writeEvidence(e, o.VerifDir, sum, len(unlisted), knownHit); err != nil {
			fmt.Fprintln(os.Stderr, "evidence:", err)
			return 2
		}
	}
	fmt.Printf("%s tier=%s seed=%d cases=%d evaluations=%d distinct_nontrivial=%d violations=%d known=%d inconclusive=%d wall=%.1fs\n",
		prop, tier, seed, total, sum.Evals, len(sum.Sigs), len(unlisted), len(knownHit), len(sum.Inconclusive), sum.Wall)
	for _, s := range firstN(sum.Inconclusive, 5) {
		fmt.Println("INCONCLUSIVE:", s)
	}
	keys := make([]string, 0, len(knownHit))
	for k := range knownHit {
		keys = append(keys, k)
	}
	sort.Strings(keys)
	for _, k := range keys {
		fmt.Printf("KNOWN-FINDING: property=%s %s\n", prop, knownHit[k].Desc)
	}
	if len(unlisted) > 0 {
		_ = os.MkdirAll(filepath.Join(o.VerifDir, "replays"), 0o755)
		seen := map[string]bool{}
		n := 0
		for _, v := range unlisted {
			if seen[v.Key] {
				continue
			}
			seen[v.Key] = true
			n++
			if n > 25 {
				break
			}
			rp := filepath.Join(o.VerifDir, "replays", fmt.Sprintf("%s-%s-s%d-i%d.json", prop, tier, seed, v.Index))
			rf := replayFile{Prop: prop, Tier: tier, Seed: seed, Index: v.Index, Key: v.Key, What: v.Msg, Detail: v.Detail,
				How: fmt.Sprintf("./check %s --replay %s", prop, rp)}
			b, _ := json.MarshalIndent(rf, "", " ")
			_ = os.WriteFile(rp, b, 0o644)
			fmt.Printf("VIOLATION property=%s replay=%s\n", prop, rp)
			fmt.Printf("  key=%s  %s\n", v.Key, clip(v.Msg, 300))
		}
		return 1
	}
	if replayIdx >= 0 {
		fmt.Println("replay: case held")
		return 0
	}
	if len(sum.Sigs) < minNT || sum.Evals < 1 {
		fmt.Printf("BROKEN-CHECK: observed only %d distinct non-trivial cases (floor %d); a monitor that saw nothing must not pass\n", len(sum.Sigs), minNT)
		return 2
	}
	return 0
}

func safeIdx(l []string, i int) string {
	if i < len(l) {
		return l[i]
	}
	return ""
}

func firstN(s []string, n int) []string {
	if len(s) > n {
		return s[:n]
	}
	return s
}

func clip(s string, n int) string {
	if len(s) > n {
		return s[:n] + "…"
	}
	return s
}

func mustJSON(v any) json.RawMessage {
	b, err := json.Marshal(v)
	if err != nil {
		return nil
	}
	return b
}

func tailFile(path string, n int64) string {
	f, err := os.Open(path)
	if err != nil {
		return ""
	}
	defer f.Close()
	st, err := f.Stat()
	if err != nil {
		return ""
	}
	// head matters most for Go crashes (first goroutine is the faulting one)
	sz := st.Size()
	if sz > n {
		sz = n
	}
	b := make([]byte, sz)
	_, _ = f.ReadAt(b, 0)
	if st.Size() > n {
		// a deep recursion prints its innermost frames first and, after "frames elided", the
		// outermost ones: the frame of the library that started it is near the end of the dump
		t := make([]byte, n)
		_, _ = f.ReadAt(t, st.Size()-n)
		return string(b) + "\n...\n" + string(t)
	}
	return string(b)
}

var reFatal = regexp.MustCompile(`(?m)^(fatal error: .*|panic: .*|runtime: out of memory.*|unexpected fault address.*|SIGSEGV.*|signal: .*)$`)

func crashKey(stderr string, exit int) (key, what string) {
	m := reFatal.FindString(stderr)
	if m == "" {
		return fmt.Sprintf("crash:exit%d", exit), fmt.Sprintf("exit status %d, no Go crash banner", exit)
	}
	class := m
	if i := strings.Index(class, ":"); i > 0 {
		rest := strings.TrimSpace(class[i+1:])
		if len(rest) > 48 {
			rest = rest[:48]
		}
		class = class[:i] + "(" + rest + ")"
	}
	class = strings.ReplaceAll(class, " ", "_")
	return "crash:" + InnermostFrame([]byte(stderr)) + ":" + class, m
}

// blockedFrame finds the innermost imagemeta frame of the first goroutine that is parked in a
// synchronisation primitive.
func blockedFrame(dump string) string {
	for _, g := range strings.Split(dump, "\n\n") {
		if (strings.Contains(g, "sync.") || strings.Contains(g, "semacquire")) && strings.Contains(g, "evanoberholster/imagemeta") {
			return InnermostFrame([]byte(g))
		}
	}
	return InnermostFrame([]byte(dump))
}

// hangFrame finds the innermost imagemeta frame of the first goroutine that has one.
func hangFrame(dump string) string {
	return InnermostFrame([]byte(dump))
}

var reRaceFrame = regexp.MustCompile(`^\s+(github\.com/evanoberholster/imagemeta[^\s(]*)`)

// collectRaces parses the race detector logs of all workers.
func collectRaces(runDir string, sum *Summary, prop, tier string, seed uint64) {
	files, _ := filepath.Glob(filepath.Join(runDir, "race.*"))
	blocks := 0
	dedup := map[string]string{}
	for _, f := range files {
		b, err := os.ReadFile(f)
		if err != nil {
			continue
		}
		for _, blk := range strings.Split(string(b), "==================") {
			if !strings.Contains(blk, "WARNING: DATA RACE") {
				continue
			}
			blocks++
			// key: the first imagemeta frame of each of the two accesses, line numbers stripped
			var frames []string
			sections := strings.Split(blk, "\n\n")
			for _, sec := range sections {
				if !(strings.Contains(sec, "Write at") || strings.Contains(sec, "Read at") || strings.Contains(sec, "Previous write") || strings.Contains(sec, "Previous read")) {
					continue
				}
				for _, ln := range strings.Split(sec, "\n") {
					if m := reRaceFrame.FindStringSubmatch(ln); m != nil {
						frames = append(frames, strings.TrimPrefix(m[1], "github.com/evanoberholster/imagemeta"))
						break
					}
				}
			}
			sort.Strings(frames)
			k := "race:" + strings.Join(frames, "|")
			if len(frames) == 0 {
				k = "race:harness-only"
			}
			if _, ok := dedup[k]; !ok {
				dedup[k] = clip(blk, 5000)
			}
		}
	}
	sum.Extra["race_report_blocks"] = blocks
	sum.Extra["race_reports_distinct"] = len(dedup)
	for k, blk := range dedup {
		if k == "race:harness-only" {
			// a race with no imagemeta frame is the harness's own bug: broken check, surfaced as inconclusive
			sum.Inconclusive = append(sum.Inconclusive, "race report without an imagemeta frame (harness bug?): "+clip(blk, 600))
			continue
		}
		sum.Violations = append(sum.Violations, Violation{Prop: prop, Key: k, Msg: "data race reported by the Go race detector: " + k,
			Tier: tier, Seed: seed, Index: 0, Detail: mustJSON(map[string]any{"report": blk})})
	}
}

func writeEvidence(e Engine, verifDir string, sum *Summary, unlisted int, knownHit map[string]*knownFinding) error {
	cov := map[string]any{
		"evaluations":         sum.Evals,
		"distinct_nontrivial": len(sum.Sigs),
		"rule":                e.Rule(),
		"cases":               sum.Cases,
	}
	samples := []any{}
	for _, s := range sum.Samples {
		samples = append(samples, s)
	}
	if len(samples) == 0 {
		for _, s := range sum.SigExamples {
			samples = append(samples, s)
		}
	}
	if len(samples) == 0 {
		samples = append(samples, "no sample recorded")
	}
	cov["samples"] = samples
	cov["signature_examples"] = sum.SigExamples
	for k, v := range sum.Counters {
		cov[k] = v
	}
	for k, v := range sum.Maxes {
		cov["max_"+k] = v
	}
	for k, m := range sum.Sets {
		cov["distinct_"+k] = len(m)
	}
	for k, v := range sum.Extra {
		cov[k] = v
	}
	if ex, ok := e.(Exhaustive); ok && ex.Exhaustive(sum.Tier) {
		cov["exhaustive"] = true
	}
	kh := []string{}
	for k := range knownHit {
		kh = append(kh, k)
	}
	sort.Strings(kh)
	cov["known_findings_hit"] = kh
	cov["inconclusive"] = len(sum.Inconclusive)
	if len(sum.Inconclusive) > 0 {
		cov["inconclusive_examples"] = firstN(sum.Inconclusive, 5)
	}
	ev := map[string]any{
		"property_id": sum.Prop,
		"tier":        sum.Tier,
		"seed":        sum.Seed,
		"level":       e.Level(),
		"coverage":    cov,
		"assumptions": e.Assumptions(),
		"wall_s":      sum.Wall,
		"violations":  unlisted,
	}
	b, err := json.MarshalIndent(ev, "", " ")
	if err != nil {
		return err
	}
	dir := filepath.Join(verifDir, "evidence")
	if err := os.MkdirAll(dir, 0o755); err != nil {
		return err
	}
	return os.WriteFile(filepath.Join(dir, sum.Prop+".json"), b, 0o644)
}
