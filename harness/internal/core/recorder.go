package core

import (
	"encoding/json"
	"fmt"
	"math"
	"os"
	"sort"
	"sync"
)

// Violation is one refuting observation.
type Violation struct {
	Prop   string          `json:"property"`
	Key    string          `json:"key"`  // specific key, matched against KNOWN_FINDINGS.txt
	Msg    string          `json:"what"` // human readable
	Tier   string          `json:"tier"`
	Seed   uint64          `json:"seed"`
	Index  int             `json:"index"`
	Detail json.RawMessage `json:"detail,omitempty"`
}

// Recorder accumulates what one worker observed. Safe for concurrent use (C05 calls it from
// many goroutines); the lock is the monitor's own and never held while library code runs.
type Recorder struct {
	mu           sync.Mutex
	Prop         string
	Tier         string
	Seed         uint64
	Index        int // current case
	Evals        int64
	Sigs         map[uint64]struct{}
	SigExamples  []string
	Samples      []json.RawMessage
	Violations   []Violation
	Inconclusive []string
	Counters     map[string]int64
	Maxes        map[string]float64
	Sets         map[string]map[uint64]struct{}
	violKeys     map[string]int
}

func NewRecorder(prop, tier string, seed uint64) *Recorder {
	return &Recorder{Prop: prop, Tier: tier, Seed: seed,
		Sigs: map[uint64]struct{}{}, Counters: map[string]int64{}, Maxes: map[string]float64{},
		Sets: map[string]map[uint64]struct{}{}, violKeys: map[string]int{}}
}

// Eval counts real calls / evaluations made.
func (r *Recorder) Eval(n int) {
	r.mu.Lock()
	r.Evals += int64(n)
	r.mu.Unlock()
}

// Sig records one non-trivial behaviour signature; distinct_nontrivial is the number of
// distinct signatures seen.
func (r *Recorder) Sig(s string) {
	h := HashStr(s)
	r.mu.Lock()
	if _, ok := r.Sigs[h]; !ok {
		r.Sigs[h] = struct{}{}
		if len(r.SigExamples) < 12 {
			r.SigExamples = append(r.SigExamples, s)
		}
	}
	r.mu.Unlock()
}

// SigHash is Sig for callers that already have a hash (avoids building strings in hot loops).
func (r *Recorder) SigHash(h uint64) {
	r.mu.Lock()
	r.Sigs[h] = struct{}{}
	r.mu.Unlock()
}

// Sample keeps a few literal cases for the evidence file.
func (r *Recorder) Sample(v any) {
	r.mu.Lock()
	defer r.mu.Unlock()
	if len(r.Samples) >= 6 {
		return
	}
	b, err := json.Marshal(v)
	if err == nil {
		r.Samples = append(r.Samples, b)
	}
}

func (r *Recorder) WantSample() bool {
	r.mu.Lock()
	defer r.mu.Unlock()
	return len(r.Samples) < 6
}

func (r *Recorder) Count(name string, n int64) {
	r.mu.Lock()
	r.Counters[name] += n
	r.mu.Unlock()
}

func (r *Recorder) Max(name string, v float64) {
	// (JSON has no infinities or NaN: a statistic that overflows must not take the worker down
	// before the violation behind it is reported)
	if v != v {
		return
	}
	if v > math.MaxFloat64 {
		v = math.MaxFloat64
	} else if v < -math.MaxFloat64 {
		v = -math.MaxFloat64
	}
	r.mu.Lock()
	if old, ok := r.Maxes[name]; !ok || v > old {
		r.Maxes[name] = v
	}
	r.mu.Unlock()
}

// SetAdd adds a member to a named distinct-set (e.g. interleavings_seen).
func (r *Recorder) SetAdd(name string, member uint64) {
	r.mu.Lock()
	m := r.Sets[name]
	if m == nil {
		m = map[uint64]struct{}{}
		r.Sets[name] = m
	}
	m[member] = struct{}{}
	r.mu.Unlock()
}

// Violation records a refuting observation for the current case. At most 5 are kept per key
// so that one defect does not flood the report (each key is still counted).
func (r *Recorder) Violation(key, msg string, detail any) {
	r.ViolationAt(r.Index, key, msg, detail)
}

func (r *Recorder) ViolationAt(idx int, key, msg string, detail any) {
	r.mu.Lock()
	defer r.mu.Unlock()
	r.violKeys[key]++
	r.Counters["violating_observations"]++
	if r.violKeys[key] > 3 {
		return
	}
	var raw json.RawMessage
	if detail != nil {
		if b, err := json.Marshal(detail); err == nil {
			raw = b
		}
	}
	r.Violations = append(r.Violations, Violation{Prop: r.Prop, Key: key, Msg: msg, Tier: r.Tier, Seed: r.Seed, Index: idx, Detail: raw})
}

func (r *Recorder) Inconcl(msg string) {
	r.mu.Lock()
	if len(r.Inconclusive) < 50 {
		r.Inconclusive = append(r.Inconclusive, fmt.Sprintf("case %d: %s", r.Index, msg))
	}
	r.Counters["inconclusive"]++
	r.mu.Unlock()
}

// workerResult is what a worker process hands back to the driver.
type workerResult struct {
	Evals        int64
	Sigs         []uint64
	SigExamples  []string
	Samples      []json.RawMessage
	Violations   []Violation
	Inconclusive []string
	Counters     map[string]int64
	Maxes        map[string]float64
	Sets         map[string][]uint64
	Done         bool
	LastIndex    int
}

func (r *Recorder) snapshot(done bool, last int) workerResult {
	r.mu.Lock()
	defer r.mu.Unlock()
	w := workerResult{Evals: r.Evals, SigExamples: r.SigExamples, Samples: r.Samples,
		Violations: r.Violations, Inconclusive: r.Inconclusive, Counters: r.Counters, Maxes: r.Maxes,
		Done: done, LastIndex: last, Sets: map[string][]uint64{}}
	w.Sigs = make([]uint64, 0, len(r.Sigs))
	for h := range r.Sigs {
		w.Sigs = append(w.Sigs, h)
	}
	sort.Slice(w.Sigs, func(i, j int) bool { return w.Sigs[i] < w.Sigs[j] })
	for k, m := range r.Sets {
		s := make([]uint64, 0, len(m))
		for h := range m {
			s = append(s, h)
		}
		w.Sets[k] = s
	}
	return w
}

func (r *Recorder) flush(path string, done bool, last int) error {
	w := r.snapshot(done, last)
	b, err := json.Marshal(w)
	if err != nil {
		return err
	}
	tmp := path + ".tmp"
	if err := os.WriteFile(tmp, b, 0o644); err != nil {
		return err
	}
	return os.Rename(tmp, path)
}
