package core

import "math"

// Rng is a small deterministic PRNG (splitmix64). Every case of every engine is a pure
// function of (VERIF_SEED, property, tier, index) through one of these streams.
type Rng struct{ s uint64 }

func mix(z uint64) uint64 {
	z += 0x9e3779b97f4a7c15
	z = (z ^ (z >> 30)) * 0xbf58476d1ce4e5b9
	z = (z ^ (z >> 27)) * 0x94d049bb133111eb
	return z ^ (z >> 31)
}

// HashStr is FNV-1a 64.
func HashStr(s string) uint64 {
	h := uint64(14695981039346656037)
	for i := 0; i < len(s); i++ {
		h ^= uint64(s[i])
		h *= 1099511628211
	}
	return h
}

// NewRng derives a stream from a seed and any number of coordinates.
func NewRng(seed uint64, coords ...uint64) *Rng {
	s := mix(seed ^ 0x5851f42d4c957f2d)
	for _, c := range coords {
		s = mix(s ^ mix(c))
	}
	return &Rng{s: s}
}

func (r *Rng) U64() uint64 {
	r.s += 0x9e3779b97f4a7c15
	z := r.s
	z = (z ^ (z >> 30)) * 0xbf58476d1ce4e5b9
	z = (z ^ (z >> 27)) * 0x94d049bb133111eb
	return z ^ (z >> 31)
}

func (r *Rng) U32() uint32 { return uint32(r.U64() >> 32) }

// Intn returns a value in [0,n). n<=0 returns 0.
func (r *Rng) Intn(n int) int {
	if n <= 0 {
		return 0
	}
	return int(r.U64() % uint64(n))
}

// Range returns a value in [lo,hi].
func (r *Rng) Range(lo, hi int) int {
	if hi <= lo {
		return lo
	}
	return lo + r.Intn(hi-lo+1)
}

func (r *Rng) Bool() bool { return r.U64()&1 == 1 }

// Chance returns true with probability num/den.
func (r *Rng) Chance(num, den int) bool { return r.Intn(den) < num }

func (r *Rng) Float() float64 { return float64(r.U64()>>11) / float64(1<<53) }

func (r *Rng) Norm() float64 {
	u1 := r.Float()
	if u1 < 1e-300 {
		u1 = 1e-300
	}
	return math.Sqrt(-2*math.Log(u1)) * math.Cos(2*math.Pi*r.Float())
}

func (r *Rng) Bytes(n int) []byte {
	b := make([]byte, n)
	for i := 0; i < n; {
		v := r.U64()
		for k := 0; k < 8 && i < n; k++ {
			b[i] = byte(v)
			v >>= 8
			i++
		}
	}
	return b
}

func (r *Rng) Perm(n int) []int {
	p := make([]int, n)
	for i := range p {
		p[i] = i
	}
	for i := n - 1; i > 0; i-- {
		j := r.Intn(i + 1)
		p[i], p[j] = p[j], p[i]
	}
	return p
}

// Pick returns one of the ints.
func (r *Rng) Pick(v ...int) int { return v[r.Intn(len(v))] }

func (r *Rng) PickStr(v ...string) string { return v[r.Intn(len(v))] }

// Fork returns an independent stream.
func (r *Rng) Fork(c uint64) *Rng { return NewRng(r.U64(), c) }
