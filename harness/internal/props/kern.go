package props

import (
	"fmt"
	"math"
	"sort"
	"sync"

	"verif/harness/internal/core"
	"verif/harness/internal/mon"
)

// Shared pieces of the kernel engines (C18, C19, C20): the reference DCT-II, guarded operands,
// and the hash oracle.

var (
	cosOnce sync.Once
	cos64   [64][64]float64   // cos64[k][n] = cos(pi*(2n+1)k/128)
	cos256  [256][256]float64 // cos256[k][n] = cos(pi*(2n+1)k/512)
)

func initCos() {
	cosOnce.Do(func() {
		for k := 0; k < 64; k++ {
			for n := 0; n < 64; n++ {
				cos64[k][n] = math.Cos(math.Pi * float64((2*n+1)*k) / 128)
			}
		}
		for k := 0; k < 256; k++ {
			for n := 0; n < 256; n++ {
				cos256[k][n] = math.Cos(math.Pi * float64((2*n+1)*k) / 512)
			}
		}
	})
}

// refDCT is the direct O(N^2) unscaled DCT-II in float64: X_k = sum_n x_n cos(pi (2n+1) k / 2N).
// Only the first kmax outputs are computed.
func refDCT(x []float64, kmax int, out []float64) {
	initCos()
	n := len(x)
	for k := 0; k < kmax; k++ {
		s := 0.0
		if n == 64 {
			row := &cos64[k]
			for i, v := range x {
				s += v * row[i]
			}
		} else {
			row := &cos256[k]
			for i, v := range x {
				s += v * row[i]
			}
		}
		out[k] = s
	}
}

// refDCT2DLow computes the low b x b block of the separable 2-D DCT-II of an s x s row-major
// luminance buffer, flattened as [b*v + u] with v the vertical and u the horizontal frequency
// (row-major frequency order).
func refDCT2DLow(lum []float64, s, b int) []float64 {
	out, _ := refDCT2DLowRows(lum, s, b)
	return out
}

// refDCT2DLowRows also returns the row-pass result rows[y*b+u].
func refDCT2DLowRows(lum []float64, s, b int) ([]float64, []float64) {
	rows := make([]float64, s*b) // rows[y*b+u]
	tmp := make([]float64, b)
	for y := 0; y < s; y++ {
		refDCT(lum[y*s:(y+1)*s], b, tmp)
		copy(rows[y*b:], tmp)
	}
	out := make([]float64, b*b)
	col := make([]float64, s)
	for u := 0; u < b; u++ {
		for y := 0; y < s; y++ {
			col[y] = rows[y*b+u]
		}
		refDCT(col, b, tmp)
		for v := 0; v < b; v++ {
			out[b*v+u] = tmp[v]
		}
	}
	return out, rows
}

func l1(x []float64) float64 {
	s := 0.0
	for _, v := range x {
		s += math.Abs(v)
	}
	return s
}

// guardPair keeps two placements (flush at the end, flush at the start) of an operand size.
type guardPair struct{ end, start *mon.Guard }

var (
	guardMu    sync.Mutex
	guardCache = map[int]*guardPair{}
)

// guardsFor returns cached guards for an operand of n bytes.
func guardsFor(n int) *guardPair {
	guardMu.Lock()
	defer guardMu.Unlock()
	if g, ok := guardCache[n]; ok {
		return g
	}
	g := &guardPair{end: mon.MustGuard(n, true, 0), start: mon.MustGuard(n, false, 0)}
	guardCache[n] = g
	return g
}

func (p *guardPair) pick(atEnd bool) *mon.Guard {
	if atEnd {
		return p.end
	}
	return p.start
}

// reportFault turns a caught fault into a violation of property prop.
func reportFault(c *core.Ctx, ft mon.Fault, what string, guards map[string]*mon.Guard, detail map[string]any) {
	where := ""
	if ft.HasAddr {
		for name, g := range guards {
			if w := g.Where(ft.Addr); w != "" {
				where = name + ": " + w
			}
		}
	}
	if detail == nil {
		detail = map[string]any{}
	}
	detail["panic"] = ft.Text
	detail["stack"] = ft.Stack
	detail["fault_where"] = where
	if ft.Faulted {
		c.Rec.Count("guard_faults", 1)
		c.Rec.Violation("guardfault:"+core.InnermostFrame([]byte(ft.Stack)), fmt.Sprintf("%s: memory fault outside the operand (%s) %s", what, where, ft.Text), detail)
	} else {
		c.Rec.Violation("panic:"+core.InnermostFrame([]byte(ft.Stack)), fmt.Sprintf("%s: panic: %s", what, ft.Text), detail)
	}
}

// checkCanaries verifies the slack of all guards and resets them.
func checkCanaries(c *core.Ctx, what string, guards map[string]*mon.Guard, detail map[string]any) bool {
	ok := true
	for name, g := range guards {
		c.Rec.Count("canary_bytes_checked", int64(g.SlackBytes()))
		if intact, at := g.CanaryIntact(); !intact {
			ok = false
			d := map[string]any{"operand": name, "first_changed_offset": at}
			for k, v := range detail {
				d[k] = v
			}
			c.Rec.Violation("canary:"+name, fmt.Sprintf("%s: canary around %s changed at operand offset %d (store outside the operand)", what, name, at), d)
			g.Reset()
		}
	}
	return ok
}

// ---- hash oracle -------------------------------------------------------------------------

// hashBits expands a hash given as big-endian 64-bit words into idx-ordered bits (idx 0 = MSB
// of word 0).
func hashBits(words []uint64) []bool {
	out := make([]bool, 64*len(words))
	for w, v := range words {
		for i := 0; i < 64; i++ {
			out[w*64+i] = v>>(63-uint(i))&1 == 1
		}
	}
	return out
}

type hashVerdict struct {
	Key, Msg string
}

// checkHashAgainstCoeffs is the C19 oracle: bits vs the reference coefficients c (row-major
// frequency order) with margin tau. Returns nil if the hash is a median-threshold function of c
// up to tau.
func checkHashAgainstCoeffs(bits []bool, c []float64, tau float64) *hashVerdict {
	n := len(c)
	s := append([]float64(nil), c...)
	sort.Float64s(s)
	lm, um := s[n/2-1], s[n/2]
	maxClear, minSet := math.Inf(-1), math.Inf(1)
	iClear, iSet := -1, -1
	for i, v := range c {
		if bits[i] {
			if v < minSet {
				minSet, iSet = v, i
			}
		} else if v > maxClear {
			maxClear, iClear = v, i
		}
	}
	for i, v := range c {
		// strict: a coefficient exactly at the median (ties, e.g. an all-black image whose
		// coefficients are all 0) is at the threshold, and a threshold "at the median" clears it
		if v > um+tau && !bits[i] {
			return &hashVerdict{"hash:upper-cleared", fmt.Sprintf("coefficient %d = %.9g is above upper median %.9g + tau %.3g but its bit is clear", i, v, um, tau)}
		}
		if v < lm-tau && bits[i] {
			return &hashVerdict{"hash:lower-set", fmt.Sprintf("coefficient %d = %.9g is below lower median %.9g - tau %.3g but its bit is set", i, v, lm, tau)}
		}
	}
	if iClear >= 0 && iSet >= 0 && maxClear > minSet+2*tau {
		return &hashVerdict{"hash:not-upper-set", fmt.Sprintf("cleared coefficient %d = %.9g exceeds set coefficient %d = %.9g by more than 2 tau (%.3g): no single threshold separates set from cleared bits", iClear, maxClear, iSet, minSet, tau)}
	}
	return nil
}
