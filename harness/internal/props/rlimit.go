package props

import "syscall"

func setAddressSpaceLimit(bytes uint64) {
	lim := syscall.Rlimit{Cur: bytes, Max: bytes}
	_ = syscall.Setrlimit(syscall.RLIMIT_AS, &lim)
}
