package props

import (
	"fmt"
	"github.com/evanoberholster/imagemeta"
	"github.com/rs/zerolog"
	"image"
	"io"
	"runtime"
	"sort"
	"strings"
	"sync"
	"sync/atomic"
	"time"

	"github.com/evanoberholster/imagemeta/imagehash"

	"verif/harness/internal/core"
	"verif/harness/internal/gen"
	"verif/harness/internal/mon"
)

// C05 — concurrent calls on independent inputs are race-free and match sequential runs.
// Runs from the -race build; the driver collects and de-duplicates the detector's reports.
type C05 struct {
	once   sync.Once
	pop    *population
	imgs   []c05img
	golden map[string]string // per worker: call key -> sequential observation on pristine state
}

type c05img struct {
	img  image.Image
	name string
	size int
}

func (e *C05) ID() string      { return "C05" }
func (e *C05) Level() string   { return "exploration" }
func (e *C05) NeedsRace() bool { return true }
func (e *C05) Rule() string {
	return "each case is one round in a -race build: N in {2,8,16,64} goroutines are released by a barrier under GOMAXPROCS in {1,2,4,16,32}; each performs 3-10 seeded calls on its own reader/image drawn from: every decode/scan/parse/sniff entry point on sample and generated files of every container (also truncated and structure-mutated ones: error paths), TIFFs carrying fresh OffsetTime strings (distinct offsets, and equal offsets spelled differently such as +00:00/-00:00, +05:00/+04:60) so that several calls miss the zone cache at once (the cache and all pools are reset before the round; in a quarter of the rounds nearly every call carries three offsets out of 1800, so that the cache passes its capacity of 256 several times within the round; in an eighth of the rounds the k-th calls of all goroutines carry one offset in two spellings, so that the cold misses for an offset come together), the four perceptual hashes, NewAHash and EncodeBlurHashFast on 64x64/256x256 images of four kinds. Readers yield (runtime.Gosched or a microsecond sleep) at seeded Read calls, the natural suspension points of this library. A third of the cases also start a cold-start burst: a fresh process of the same race build in which 8 goroutines, released together, each make the same kind of call (18 kinds: gray conversions, hashes, kernels, blurhash, decode, parse, XMP, tag names, sniffing, CR3 preview, TIFFs whose OffsetTime strings spell one offset in two ways) on an input of their own as the very first library calls of that process, then repeat them sequentially - lazily initialised state meets concurrency in every burst. Oracles: the Go race detector (reports parsed from its log, de-duplicated by the innermost imagemeta frame pair; a report with no imagemeta frame is the harness's own and makes the run inconclusive); every call's canonical observation must equal the observation of the same call run alone on pristine state (computed sequentially in the same binary, after the round, so that nothing is warmed up before its first concurrent use); a panic is a crash; a round in which no call completes for 120 s while the process is CPU-idle is a deadlock. SetLogger is never called while calls are in flight (configuration is outside the property); a quarter of the rounds set trace-level loggers with a discarding writer before the round starts, so that the formatting code behind the log statements also runs concurrently. Non-trivial: a round with >= 2 calls overlapping in time; distinct = distinct overlap signatures (multiset of call kinds in flight when a call starts, from one atomic event sequence at the client boundary)."
}
func (e *C05) Assumptions() []string {
	return []string{
		"the race detector reports races only on interleavings that occur; GOMAXPROCS variation, barriers and reader-boundary yields widen but cannot exhaust the schedule space",
		"golden observations are taken on pristine state; C04 separately checks that results do not depend on history",
		"images are shared read-only between goroutines (the hash functions take image.Image by value and only read it)",
	}
}
func (e *C05) Workers(tier string) int       { return 4 }
func (e *C05) MinNontrivial(tier string) int { return 20 }
func (e *C05) Plan(tier string, seed uint64) int {
	if tier == "thorough" {
		return 1500
	}
	return 96
}
func (e *C05) CPUBudget(tier string, idx int) time.Duration { return 20 * time.Minute }

var c05Procs = []int{1, 2, 4, 16, 32}
var c05N = []int{2, 8, 16, 64}

type c05call struct {
	key   string // golden key
	class string // kind class for overlap signatures
	zone  string // OffsetTime string carried, if any
	run   func(yield func()) string
}

// tracker is the monitor's own state: one mutex, never held while library code runs.
type c05tracker struct {
	mu        sync.Mutex
	inflight  map[string]int
	n         int
	maxOver   int
	overSum   int64
	starts    int64
	order     []int
	zonesSeen map[string]bool
	zonesFly  map[string]int
	zoneOver  int64
	lastDone  atomic.Int64 // unix nano of the last completion
	rec       *core.Recorder
}

func (t *c05tracker) start(cl *c05call) {
	t.mu.Lock()
	keys := make([]string, 0, len(t.inflight)+1)
	for k, v := range t.inflight {
		if v > 0 {
			keys = append(keys, fmt.Sprintf("%s*%d", k, v))
		}
	}
	sort.Strings(keys)
	sig := cl.class + "<-" + strings.Join(keys, ",")
	t.inflight[cl.class]++
	t.n++
	if t.n > t.maxOver {
		t.maxOver = t.n
	}
	t.overSum += int64(t.n)
	t.starts++
	if cl.zone != "" && !t.zonesSeen[cl.zone] {
		for z, k := range t.zonesFly {
			if k > 0 && !t.zonesSeen[z] {
				t.zoneOver++
				break
			}
		}
		t.zonesFly[cl.zone]++
	}
	over := t.n > 1
	t.mu.Unlock()
	if over {
		t.rec.SetAdd("overlap_signatures", core.HashStr(sig))
	}
}

func (t *c05tracker) end(cl *c05call, id int) {
	t.mu.Lock()
	t.inflight[cl.class]--
	t.n--
	t.order = append(t.order, id)
	if cl.zone != "" {
		if t.zonesFly[cl.zone] > 0 {
			t.zonesFly[cl.zone]--
		}
		t.zonesSeen[cl.zone] = true
	}
	t.mu.Unlock()
	t.lastDone.Store(time.Now().UnixNano())
}

func (e *C05) init(c *core.Ctx) {
	e.once.Do(func() {
		e.pop = getPop(c.Seed)
		e.golden = map[string]string{}
		r := core.NewRng(c.Seed, 0xC05)
		for i, k := range []string{"rgba", "nrgba", "gray", "ycbcr444", "rgba", "gray", "ycbcr444", "ycbcr420"} {
			s := 64
			if i >= 5 {
				s = 256
			}
			sp := gen.ImgSpec{Kind: k, W: s, H: s, Content: gen.ImgContents[r.Intn(len(gen.ImgContents))]}
			e.imgs = append(e.imgs, c05img{gen.MakeImage(r, sp), fmt.Sprintf("img%d:%s", i, sp), s})
		}
	})
}

// zoneFile builds a TIFF whose three OffsetTime tags carry the given strings.
func c05ZoneFile(r *core.Rng, zones [3]string) []byte {
	rec := gen.GenExifRec(r, gen.RecOpts{Density: 60})
	keep := rec.Exif.Entries[:0]
	for _, en := range rec.Exif.Entries {
		if en.Tag != 0x9010 && en.Tag != 0x9011 && en.Tag != 0x9012 {
			keep = append(keep, en)
		}
	}
	rec.Exif.Entries = keep
	rec.HasExif = true
	for i, id := range []uint16{0x9010, 0x9011, 0x9012} {
		rec.Exif.Add(id, gen.ASCII(zones[i]))
	}
	root := rec.Assemble(true)
	return gen.BuildTIFF(root, gen.Layout{Big: r.Bool(), FirstOff: 8, MaxPad: r.Pick(0, 3), Order: r.Intn(3), R: r, MinLen: 32}).Bytes
}

func c05Zone(r *core.Rng) string {
	switch r.Intn(8) {
	case 0:
		return r.PickStr("+00:00", "-00:00")
	case 1:
		return r.PickStr("+05:00", "+04:60")
	case 2:
		return r.PickStr("-09:00", "-08:60")
	}
	sign := "+"
	if r.Bool() {
		sign = "-"
	}
	return fmt.Sprintf("%s%02d:%02d", sign, r.Intn(15), r.Pick(0, 15, 30, 45))
}

func (e *C05) mkCall(r *core.Rng, round int) *c05call {
	p := e.pop
	// zone-flood rounds (the larger ones, a quarter of all): almost every call decodes a TIFF with
	// three offsets out of 1800, so that the process-wide zone cache passes its capacity (256)
	// several times while other goroutines look zones up
	flood := round%8 >= 6
	k := r.Intn(10)
	if flood && k < 9 {
		k = 5
	}
	switch {
	case k < 4: // a file through one of its natural entries
		fi := r.Intn(len(p.files))
		if r.Chance(1, 3) {
			// extra weight on JPEG inputs: they pass through three reader pools (imagemeta, jpeg, and
			// the Exif buffer pool) by several routes (Decode, DecodeJPEG, ScanJPEG with and without
			// a caller-owned buffered reader)
			for try := 0; try < 8 && p.files[fi].Kind != "jpeg"; try++ {
				fi = r.Intn(len(p.files))
			}
		}
		f := p.files[fi]
		ei := p.natural[fi][r.Intn(len(p.natural[fi]))]
		ent := p.entries[ei]
		data := f.Data
		tag := ""
		switch r.Intn(6) {
		case 0:
			cut := r.Intn(len(data) + 1)
			data, tag = data[:cut], fmt.Sprintf("/trunc@%d", cut)
		case 1:
			ms := r.U64()
			data, _ = gen.Mutate(core.NewRng(ms), f.Data, f.Fields, 2)
			tag = fmt.Sprintf("/mut#%x", ms)
		}
		return &c05call{key: ent.Name + "|" + f.Name + tag, class: ent.Name, run: func(y func()) string {
			rs := mon.NewRS(data)
			rs.Yield = y
			return ent.Run(rs)
		}}
	case k < 7: // zone-cache traffic
		zs := [3]string{c05Zone(r), c05Zone(r), c05Zone(r)}
		if flood {
			for i := range zs {
				zs[i] = fmt.Sprintf("%s%02d:%02d", r.PickStr("+", "-"), r.Intn(15), r.Intn(60))
			}
		}
		fs := r.U64()
		data := c05ZoneFile(core.NewRng(fs), zs)
		name := r.PickStr("Decode", "exif2.Parse", "DecodeTiff")
		var ent Entry
		for _, x := range p.entries {
			if x.Name == name {
				ent = x
			}
		}
		return &c05call{key: fmt.Sprintf("%s|zone#%x", name, fs), class: "zone:" + name, zone: zs[0], run: func(y func()) string {
			rs := mon.NewRS(data)
			rs.Yield = y
			return ent.Run(rs)
		}}
	default: // hashing
		im := e.imgs[r.Intn(len(e.imgs))]
		fn := r.Intn(6)
		names := []string{"NewPHash64", "NewPHash64Alt", "NewPHash256", "NewPHash256Alt", "NewAHash", "EncodeBlurHashFast"}
		if fn == 5 && im.size != 64 {
			fn = 4
		}
		if r.Chance(1, 8) {
			// an image of the wrong shape (one side right): every hashing entry point returns its
			// size error, none may bring the process down
			w, h := r.Pick(64, 64, 128, 256), r.Pick(64, 128, 32)
			if w == h {
				h = 2 * w
			}
			odd := image.NewRGBA(image.Rect(0, 0, w, h))
			copy(odd.Pix, r.Bytes(len(odd.Pix)))
			fn = r.Intn(6)
			im = c05img{img: odd, size: w, name: fmt.Sprintf("odd-%dx%d-%x", w, h, r.U32())}
		}
		return &c05call{key: names[fn] + "|" + im.name, class: "hash:" + names[fn], run: func(y func()) string {
			y()
			switch fn {
			case 4:
				h, err := imagehash.NewAHash(im.img)
				return fmt.Sprintf("%016x/%v", uint64(h), err)
			case 5:
				h, err := imagehash.EncodeBlurHashFast(im.img)
				return fmt.Sprintf("%s/%v", h, err)
			}
			h, _, _ := c19call(fn, im.img)
			return h.String()
		}}
	}
}

func (e *C05) Run(c *core.Ctx, idx int) {
	e.init(c)
	r := c.Rng(idx)
	n := c05N[idx%len(c05N)]
	procs := c05Procs[(idx/len(c05N))%len(c05Procs)]
	perG := r.Range(3, 10)
	if idx%8 == 5 {
		// zone-conflict rounds (below): many goroutines, real parallelism
		n, perG = 32, 10
		if procs < 4 {
			procs = 8
		}
	}
	calls := make([][]*c05call, n)
	total := 0
	for g := range calls {
		for k := 0; k < perG; k++ {
			calls[g] = append(calls[g], e.mkCall(r, idx))
			total++
		}
	}
	if idx%8 == 5 {
		// zone-conflict rounds: the k-th call of every goroutine decodes a TIFF whose OffsetTime
		// strings spell the same offset - one spelling in the even goroutines ("+05:00"), the other
		// in the odd ones ("+04:60") - so that the cold misses for one offset come together; each
		// call must report the spelling of its own file, whoever creates the cached zone
		var ent Entry
		for _, x := range e.pop.entries {
			if x.Name == "DecodeTiff" {
				ent = x
			}
		}
		offs := r.Perm(52) // 13 hours x 4 quarter hours; three offsets per call, every offset once per round
		files := map[[2]int][]byte{}
		for g := range calls {
			for k := range calls[g] {
				var zs [3]string
				for j := range zs {
					o := offs[(3*k+j)%52]
					h, m := 1+o/4, 15*(o%4)
					zs[j] = fmt.Sprintf("+%02d:%02d", h, m)
					if g%2 == 1 {
						zs[j] = fmt.Sprintf("+%02d:%02d", h-1, m+60) // the same offset, spelt differently
					}
				}
				sp := zs[0]
				fk := [2]int{k, g % 2}
				if files[fk] == nil {
					files[fk] = c05ZoneFile(core.NewRng(c.Seed, uint64(idx), uint64(k), uint64(g%2)), zs)
				}
				data := files[fk]
				calls[g][k] = &c05call{key: fmt.Sprintf("DecodeTiff|zoneconflict#%d-%d-%d", idx, k, g%2), class: "zone:DecodeTiff", zone: sp, run: func(y func()) string {
					rs := mon.NewRS(data)
					rs.Yield = y
					return ent.Run(rs)
				}}
			}
		}
		c.Rec.Count("zone_conflict_rounds", 1)
	}
	// a quarter of the rounds run with the loggers configured beforehand (trace level, a
	// goroutine-safe discarding writer): configuration is not concurrent, the logging the decoders
	// then do is - tag and directory names are formatted from many goroutines at once
	captureDefaults()
	logging := idx%4 == 3
	if logging {
		imagemeta.SetLogger(io.Discard, zerolog.TraceLevel)
		for _, gs := range calls {
			for _, cl := range gs {
				cl.key = "log|" + cl.key
			}
		}
		c.Rec.Count("rounds_with_trace_logging", 1)
	}
	defer restoreDefaults()
	// sequential goldens on pristine state (cached per worker: keys identify the input exactly).
	// They are taken AFTER the concurrent round: whatever the library initialises lazily on first
	// use (the zone cache is reset by a hook, but a cache this harness does not know about is not)
	// must meet its first use under concurrency, not be warmed up by a sequential pass.
	old := runtime.GOMAXPROCS(0)
	noYield := func() {}
	gold := map[string]string{}
	takeGoldens := func() {
		runtime.GOMAXPROCS(old)
		for _, gs := range calls {
			for _, cl := range gs {
				if _, ok := e.golden[cl.key]; !ok {
					resetAll()
					var o string
					if pk, key, _ := core.Guard(func() { o = cl.run(noYield) }); pk {
						o = "PANIC " + key
						c.Rec.Count("sequential_panics_seen(C01)", 1)
					}
					e.golden[cl.key] = o
					c.Rec.Eval(1)
				}
				gold[cl.key] = e.golden[cl.key]
			}
		}
		if len(e.golden) > 20000 { // bound the cache (after this round's goldens were taken from it)
			e.golden = map[string]string{}
		}
	}
	if idx%3 == 1 {
		// a cold-start burst in a process of its own (race build, same report log)
		coldBurst(c, BurstKinds[(idx/3)%len(BurstKinds)], c.Seed*1000+uint64(idx))
	}
	// the round
	resetAll()
	runtime.GOMAXPROCS(procs)
	defer runtime.GOMAXPROCS(old)
	tr := &c05tracker{inflight: map[string]int{}, zonesSeen: map[string]bool{}, zonesFly: map[string]int{}, rec: c.Rec}
	tr.lastDone.Store(time.Now().UnixNano())
	start := make(chan struct{})
	var wg sync.WaitGroup
	var mismatches atomic.Int64
	type c05res struct{ got, panicKey, panicText string }
	results := make([][]c05res, n)
	for g := range results {
		results[g] = make([]c05res, len(calls[g]))
	}
	var kbar []sync.WaitGroup
	if idx%8 == 5 {
		kbar = make([]sync.WaitGroup, perG)
		for k := range kbar {
			kbar[k].Add(n)
		}
	}
	c.SetPhase(fmt.Sprintf("round=%d goroutines=%d gomaxprocs=%d calls=%d", idx, n, procs, total))
	for g := 0; g < n; g++ {
		wg.Add(1)
		yr := core.NewRng(r.U64(), uint64(g))
		go func(g int, yr *core.Rng) {
			defer wg.Done()
			yield := func() {
				switch yr.Intn(8) {
				case 0, 1:
					runtime.Gosched()
				case 2:
					time.Sleep(time.Duration(yr.Intn(20)) * time.Microsecond)
				}
			}
			<-start
			for k, cl := range calls[g] {
				if kbar != nil {
					// zone-conflict round: the k-th calls of all goroutines start together
					kbar[k].Done()
					kbar[k].Wait()
				}
				var got string
				tr.start(cl)
				pk, key, text := core.Guard(func() { got = cl.run(yield) })
				tr.end(cl, g*1000+k)
				c.Rec.Eval(1)
				if pk {
					got = "PANIC " + key
					results[g][k] = c05res{got: got, panicKey: key, panicText: text}
					continue
				}
				results[g][k] = c05res{got: got}
			}
		}(g, yr)
	}
	done := make(chan struct{})
	go func() { wg.Wait(); close(done) }()
	close(start)
	stuck := false
wait:
	for {
		select {
		case <-done:
			break wait
		case <-time.After(5 * time.Second):
			idle := time.Since(time.Unix(0, tr.lastDone.Load()))
			if idle < 120*time.Second {
				continue
			}
			// no completion for 120 s: busy or blocked?
			c0 := cpuNow()
			time.Sleep(2 * time.Second)
			used := cpuNow() - c0
			buf := make([]byte, 1<<20)
			dump := string(buf[:runtime.Stack(buf, true)])
			if used < 100*time.Millisecond && strings.Contains(dump, "evanoberholster/imagemeta") && (strings.Contains(dump, "sync.(*") || strings.Contains(dump, "semacquire")) {
				c.Rec.Violation("deadlock:"+core.InnermostFrame([]byte(dump)), fmt.Sprintf("no call completed for %.0f s while the process was CPU-idle (%d goroutines, GOMAXPROCS %d): goroutines are blocked under imagemeta frames", idle.Seconds(), n, procs), map[string]any{"goroutines": clipStr(dump, 8000)})
			} else {
				c.Rec.Inconcl(fmt.Sprintf("round %d made no progress for %.0f s but the process is busy (cpu %.2fs in 2 s): wall-clock watchdog, not a verdict", idx, idle.Seconds(), used.Seconds()))
			}
			stuck = true
			break wait
		}
	}
	if stuck {
		return // leaked goroutines stay parked; later rounds still run
	}
	takeGoldens()
	for g := range calls {
		for k, cl := range calls[g] {
			res, want := results[g][k], gold[cl.key]
			if res.got == want {
				continue
			}
			if res.panicKey != "" {
				c.Rec.Violation("concurrent:"+res.panicKey, fmt.Sprintf("%s panicked when run concurrently (%d goroutines, GOMAXPROCS %d) but not alone: %s", cl.key, n, procs, firstLineOf(res.panicText)), map[string]any{"call": cl.key, "panic": res.panicText})
				continue
			}
			mismatches.Add(1)
			c.Rec.Violation("concurrent:"+cl.class, fmt.Sprintf("%s returns a different result when run concurrently (%d goroutines, GOMAXPROCS %d) than alone: %s", cl.key, n, procs, firstDiff(want, res.got)),
				map[string]any{"call": cl.key, "alone": clipStr(want, 1500), "concurrent": clipStr(res.got, 1500), "goroutines": n, "gomaxprocs": procs})
		}
	}
	tr.mu.Lock()
	h := uint64(14695981039346656037)
	for _, id := range tr.order {
		h = (h ^ uint64(id)) * 1099511628211
	}
	maxOver, starts, overSum, zoneOver := tr.maxOver, tr.starts, tr.overSum, tr.zoneOver
	tr.mu.Unlock()
	c.Rec.SetAdd("completion_orders", h)
	c.Rec.Max("overlap", float64(maxOver))
	c.Rec.Count("concurrent_calls", starts)
	c.Rec.Count("overlap_sum", overSum)
	c.Rec.Count("overlapping_zone_cache_misses", zoneOver)
	c.Rec.Count(fmt.Sprintf("rounds_gomaxprocs_%d", procs), 1)
	c.Rec.Count(fmt.Sprintf("rounds_goroutines_%d", n), 1)
	if maxOver >= 2 {
		c.Rec.Sig(fmt.Sprintf("round/n=%d/procs=%d/maxoverlap=%d/order=%x", n, procs, maxOver, h&0xffff))
	}
	if c.Rec.WantSample() {
		c.Rec.Sample(map[string]any{"round": idx, "goroutines": n, "gomaxprocs": procs, "calls": total, "max_overlap": maxOver, "mismatches": mismatches.Load()})
	}
}

func cpuNow() time.Duration {
	return core.CPUTime()
}

// Finish adds derived evidence.
func (e *C05) Finish(sum *core.Summary) {
	if n := sum.Counters["concurrent_calls"]; n > 0 {
		sum.Extra["mean_overlap"] = float64(sum.Counters["overlap_sum"]) / float64(n)
	}
	sum.Extra["interleavings_seen"] = len(sum.Sets["overlap_signatures"])
}
