package props

import (
	"fmt"
	"sync"

	"github.com/evanoberholster/imagemeta"

	"verif/harness/internal/core"
	"verif/harness/internal/gen"
	"verif/harness/internal/mon"
)

// relInput draws an input for the relation checks: valid files of every container, truncated
// files and malformed files.
func relInput(c *core.Ctx, p *population, idx int) (data []byte, desc string, fi int) {
	r := c.Rng(idx, 0x8e1)
	fi = r.Intn(len(p.files))
	f := p.files[fi]
	switch k := r.Intn(12); {
	case k >= 10: // grammar-based shape (fi = -2: its natural entries follow from its signature)
		if r.Chance(1, 4) {
			// a CR3 whose preview is the last thing in the file, preview length drawn afresh (what
			// the last Read of a consumer looks like depends on the length)
			mk := func() []byte {
				t, _, _ := gen.SynthPayload(r, r.Bool(), 1)
				return t
			}
			n := r.Range(3000, 120000)
			cr := gen.BuildCR3(r, gen.CR3Parts{CMT1: mk(), CMT2: mk(), XMP: []byte("<x:xmpmeta xmlns:x='adobe:ns:meta/'><rdf:RDF></rdf:RDF></x:xmpmeta>"),
				Preview: append([]byte{0xFF, 0xD8}, r.Bytes(n)...), PrvwW: 1620, PrvwH: 1080, NoMdat: true}, 0, false)
			return cr.Bytes, fmt.Sprintf("cr3 preview-last preview=%d len=%d", n+2, len(cr.Bytes)), -2
		}
		if r.Chance(1, 8) {
			// one tiny unit, hundreds to thousands of times: unit boundaries meet the 4 KiB windows
			// of the buffered readers in every phase
			d, ds := gen.TileShape(r, r.Range(6000, 40000))
			return d, ds, -2
		}
		d, ds := gen.Shape(r)
		return d, ds, -2
	case k == 9 && r.Bool():
		// a fresh XMP packet (values at the edges of the reader's look-ahead windows included):
		// what is buffered behind a token depends on how the reader delivers
		x := gen.GenXMPRec(r, 60, 1030).Serialise(r, gen.RandXMPStyle(r, false), 0)
		return x, fmt.Sprintf("xmp packet len=%d", len(x)), -2
	case k < 4:
		return f.Data, "file=" + f.Name, fi
	case k < 6:
		cut := r.Intn(len(f.Data) + 1)
		if r.Chance(1, 4) {
			// inside the 24 bytes the sniffers look at: what they make of the missing rest must not
			// come from anywhere else
			cut = r.Range(1, 23)
			if cut > len(f.Data) {
				cut = len(f.Data)
			}
			return f.Data[:cut], fmt.Sprintf("file=%s trunc@%d", f.Name, cut), fi
		}
		if len(f.Fields) > 0 && r.Bool() {
			fl := f.Fields[r.Intn(len(f.Fields))]
			cut = fl.Off + r.Pick(0, 1, fl.Width)
			if r.Bool() {
				// inside an out-of-line value: some of its bytes are delivered, the rest is missing
				var vals []gen.Field
				for _, x := range f.Fields {
					if x.Kind == "value" && x.Bound > 2 {
						vals = append(vals, x)
					}
				}
				if len(vals) > 0 {
					v := vals[r.Intn(len(vals))]
					cut = v.Off + r.Range(1, v.Bound-1)
				}
			}
			if cut > len(f.Data) {
				cut = len(f.Data)
			}
		}
		return f.Data[:cut], fmt.Sprintf("file=%s trunc@%d", f.Name, cut), fi
	default:
		d, ds := gen.Mutate(r, f.Data, f.Fields, r.Pick(1, 1, 2))
		return d, "file=" + f.Name + " mut=" + ds, fi
	}
}

// natEntries returns the natural entry points of an input drawn by relInput / workInput.
func natEntries(p *population, fi int, data []byte) []int {
	if fi >= 0 {
		return p.natural[fi]
	}
	return EntriesFor(p.entries, gen.KindOf(data))
}

// C08 — results do not depend on how the reader chunks its data.
type C08 struct {
	once sync.Once
	pop  *population
}

func (e *C08) ID() string    { return "C08" }
func (e *C08) Level() string { return "fault_enumeration" }
func (e *C08) Rule() string {
	return "each case is one input x (valid corpus/generated file of every container, a truncation at a structure boundary, inside an out-of-line value or at a random point, a 1-2 operator malformation, or a grammar-based shape, among them one tiny unit tiled to 6..40 KB) run through its natural entry points plus one random one, first over an in-memory reader and then over every chunk schedule of a fixed list (1 byte at a time; 2; 3; 7; the cycle 1,2,3,7,8,9,63,64,65,511,4095,4096,4097; 4095; 4096; 4097; 64,1; 5,1000; 13; 511,1,1,1; 65536; 8192,100; each also with the last bytes delivered together with io.EOF; and whole requests honoured in full with the last bytes delivered together with io.EOF, which is what reaches a buffered reader's direct-read path) plus a seeded random schedule, all with a working Seek and pristine library state before each call. Oracle: canonical observation (values and error text) identical to the in-memory run. Zero-length reads are never produced. Non-trivial: the chunked run performed >=2 short reads; distinct = (entry, schedule, outcome class)."
}
func (e *C08) Assumptions() []string {
	return []string{"schedules are enumerated from a fixed list for every input; the input population is seeded", "1-byte schedules are applied to inputs up to 96 KiB (the corpus cap)"}
}
func (e *C08) Plan(tier string, seed uint64) int {
	if tier == "thorough" {
		return 120000
	}
	return 5000
}
func (e *C08) MinNontrivial(tier string) int { return 100 }

func (e *C08) Run(c *core.Ctx, idx int) {
	e.once.Do(func() { e.pop = getPop(c.Seed) })
	p := e.pop
	data, desc, fi := relInput(c, p, idx)
	r := c.Rng(idx, 8)
	ents := append([]int(nil), natEntries(p, fi, data)...)
	ents = append(ents, r.Intn(len(p.entries)))
	scheds := append([][]int(nil), schedules...)
	scheds = append(scheds, randSched(r), []int{65536}, []int{8192, 100}, nil)
	for _, ei := range ents {
		ent := p.entries[ei]
		imagemeta.VerifResetState()
		var ref string
		c.SetPhase("entry=" + ent.Name + " plain " + desc)
		if pk, _, _ := core.Guard(func() { ref = ent.Run(mon.NewRS(data)) }); pk {
			c.Rec.Count("panics_seen(C01)", 1)
			continue
		}
		c.Rec.Eval(1)
		for si, sc := range scheds {
			for _, withEOF := range []bool{false, true} {
				if sc == nil && !withEOF {
					continue // whole requests without data+EOF is the reference run itself
				}
				if withEOF && sc != nil && si%3 != idx%3 { // data+EOF variant on a third of the schedules per case
					continue
				}
				rs := mon.NewRS(data)
				rs.Sched = sc
				rs.EOFWithData = withEOF
				what := fmt.Sprintf("sched=%v data+eof=%v", sc, withEOF)
				c.SetPhase("entry=" + ent.Name + " " + what + " " + desc)
				imagemeta.VerifResetState()
				var got string
				pk, key, text := core.Guard(func() { got = ent.Run(rs) })
				c.Rec.Eval(1)
				if pk {
					c.Rec.Violation("chunk:"+key, fmt.Sprintf("%s panicked under %s but returned for the in-memory reader (%s): %s", ent.Name, what, desc, firstLineOf(text)),
						map[string]any{"entry": ent.Name, "schedule": sc, "data_with_eof": withEOF, "input": desc, "panic": text})
					continue
				}
				if got != ref {
					c.Rec.Violation("chunk:"+ent.Name, fmt.Sprintf("%s differs under %s (%s): %s", ent.Name, what, desc, firstDiff(ref, got)),
						map[string]any{"entry": ent.Name, "schedule": sc, "data_with_eof": withEOF, "input": desc, "in_memory": clipStr(ref, 1500), "chunked": clipStr(got, 1500)})
				}
				if rs.ShortReads >= 2 {
					c.Rec.Sig(fmt.Sprintf("%s|%v|%v|%s", ent.Name, sc, withEOF, outcomeClass(got)))
				}
				c.Rec.Count("short_reads", int64(rs.ShortReads))
			}
		}
		// the same stream from a reader that now and then delivers nothing and no error (legal per
		// the io.Reader contract, if discouraged): it is still the same byte stream
		{
			rs := mon.NewRS(data)
			rs.Sched = [][]int{{4096}, {7, 300}, {1, 2, 3}, nil, {5, 6, 7}, {65536}}[idx%6]
			rs.ZeroEvery = 2 + idx%4
			what := fmt.Sprintf("sched=%v every %d. read delivers (0, nil)", rs.Sched, rs.ZeroEvery)
			c.SetPhase("entry=" + ent.Name + " " + what + " " + desc)
			imagemeta.VerifResetState()
			var got string
			pk, key, text := core.Guard(func() { got = ent.Run(rs) })
			c.Rec.Eval(1)
			if pk {
				c.Rec.Violation("chunk:"+key, fmt.Sprintf("%s panicked under %s but returned for the in-memory reader (%s): %s", ent.Name, what, desc, firstLineOf(text)),
					map[string]any{"entry": ent.Name, "schedule": rs.Sched, "zero_every": rs.ZeroEvery, "input": desc, "panic": text})
			} else if got != ref {
				c.Rec.Violation("chunk:zero:"+ent.Name, fmt.Sprintf("%s differs under %s (%s): %s", ent.Name, what, desc, firstDiff(ref, got)),
					map[string]any{"entry": ent.Name, "schedule": rs.Sched, "zero_every": rs.ZeroEvery, "input": desc, "in_memory": clipStr(ref, 1500), "chunked": clipStr(got, 1500)})
			}
			c.Rec.Count("zero_reads", int64(rs.ZeroReads))
		}
	}
	if c.Rec.WantSample() && idx%29 == 0 {
		c.Rec.Sample(map[string]any{"input": desc, "len": len(data), "entries": len(ents), "schedules": len(scheds)})
	}
}

func clipStr(s string, n int) string {
	if len(s) > n {
		return s[:n] + "…"
	}
	return s
}

// firstDiff shows the first differing line of two observations.
func firstDiff(a, b string) string {
	la, lb := splitLines(a), splitLines(b)
	for i := 0; i < len(la) || i < len(lb); i++ {
		x, y := "", ""
		if i < len(la) {
			x = la[i]
		}
		if i < len(lb) {
			y = lb[i]
		}
		if x != y {
			return fmt.Sprintf("%q vs %q", clipStr(x, 160), clipStr(y, 160))
		}
	}
	return "(equal)"
}

func splitLines(s string) []string {
	var out []string
	start := 0
	for i := 0; i < len(s); i++ {
		if s[i] == '\n' {
			out = append(out, s[start:i])
			start = i + 1
		}
	}
	return append(out, s[start:])
}
