package props

import (
	"bufio"
	"bytes"
	"fmt"
	"io"

	"github.com/evanoberholster/imagemeta/imagetype"

	"verif/harness/internal/core"
	"verif/harness/internal/mon"
)

// ---- independent signature table (written from the format definitions, at the granularity
// the imagetype package documents)

type sigFmt struct {
	name   string
	it     imagetype.ImageType
	sound  func(h []byte) bool // liberal: "a header is given type F only if it carries F's signature"
	strict func(h []byte) bool // documented standard signature: "must be identified as F"
}

func at(h []byte, off int, s string) bool {
	return len(h) >= off+len(s) && string(h[off:off+len(s)]) == s
}

func isFtyp(h []byte) bool    { return at(h, 4, "ftyp") }
func isFtypStd(h []byte) bool { return isFtyp(h) && h[0] == 0 && h[1] == 0 }
func brandIn(h []byte, off int, set ...string) bool {
	for _, s := range set {
		if at(h, off, s) {
			return true
		}
	}
	return false
}

var heicBrands = []string{"heic", "heix", "heim", "heis", "hevc", "hevx", "hevm", "hevs"}

func tiffSig(h []byte) bool { return at(h, 0, "II*\x00") || at(h, 0, "MM\x00*") }

var sigTable = []sigFmt{
	{"jpeg", imagetype.ImageJPEG, func(h []byte) bool { return at(h, 0, "\xff\xd8") || at(h, 0, "\x00\x00\x00\x0cjP  \r\n\x87\n") },
		func(h []byte) bool { return at(h, 0, "\xff\xd8") || at(h, 0, "\x00\x00\x00\x0cjP  \r\n\x87\n") }},
	{"png", imagetype.ImagePNG, func(h []byte) bool { return at(h, 0, "\x89PNG") }, func(h []byte) bool { return at(h, 0, "\x89PNG") }},
	{"gif", imagetype.ImageGIF, func(h []byte) bool { return at(h, 0, "GIF87a") || at(h, 0, "GIF89a") }, func(h []byte) bool { return at(h, 0, "GIF87a") || at(h, 0, "GIF89a") }},
	{"bmp", imagetype.ImageBMP, func(h []byte) bool { return at(h, 0, "BM") }, func(h []byte) bool { return at(h, 0, "BM") }},
	{"webp", imagetype.ImageWebP, func(h []byte) bool { return at(h, 0, "RIFF") && at(h, 8, "WEBP") }, func(h []byte) bool { return at(h, 0, "RIFF") && at(h, 8, "WEBP") }},
	{"tiff", imagetype.ImageTiff, tiffSig, tiffSig},
	{"cr2", imagetype.ImageCR2, func(h []byte) bool { return tiffSig(h) && at(h, 8, "CR\x02\x00") }, func(h []byte) bool { return tiffSig(h) && at(h, 8, "CR\x02\x00") }},
	{"rw2", imagetype.ImagePanaRAW, func(h []byte) bool { return at(h, 0, "IIU\x00") && at(h, 8, "\x88\xe7\x74\xd8") }, func(h []byte) bool { return at(h, 0, "IIU\x00") && at(h, 8, "\x88\xe7\x74\xd8") }},
	{"crw", imagetype.ImageCRW, func(h []byte) bool { return at(h, 0, "II") && at(h, 6, "HEAPCCDR") }, func(h []byte) bool { return at(h, 0, "II") && at(h, 6, "HEAPCCDR") }},
	{"cr3", imagetype.ImageCR3, func(h []byte) bool { return isFtyp(h) && at(h, 8, "crx ") }, func(h []byte) bool { return isFtypStd(h) && at(h, 8, "crx ") }},
	{"avif", imagetype.ImageAVIF, func(h []byte) bool {
		return isFtyp(h) && (brandIn(h, 8, "avif", "avis") || brandIn(h, 16, "avif", "avis") || brandIn(h, 20, "avif", "avis"))
	}, func(h []byte) bool {
		return isFtypStd(h) && (at(h, 8, "avif") || (at(h, 8, "mif1") && at(h, 20, "avif")))
	}},
	{"heif", imagetype.ImageHEIF, func(h []byte) bool {
		// a HEVC-image brand as major brand or in one of the two compatible-brand slots the header
		// holds; the generic brands mif1 / msf1 (which AVIF files carry too) are no evidence alone
		return isFtyp(h) && (brandIn(h, 8, heicBrands...) || brandIn(h, 16, heicBrands...) || brandIn(h, 20, heicBrands...))
	}, func(h []byte) bool {
		return isFtypStd(h) && (at(h, 8, "heic") || at(h, 8, "heix") || (at(h, 8, "mif1") && (at(h, 16, "heic") || at(h, 20, "heic"))) || (at(h, 8, "msf1") && at(h, 20, "hevc")))
	}},
	{"psd", imagetype.ImagePSD, func(h []byte) bool { return at(h, 0, "8BPS") }, func(h []byte) bool { return at(h, 0, "8BPS") }},
	{"xmp", imagetype.ImageXMP, func(h []byte) bool { return at(h, 0, "<x:xmpmeta") }, func(h []byte) bool { return at(h, 0, "<x:xmpmeta") }},
	{"ppm", imagetype.ImagePPM, func(h []byte) bool {
		return len(h) > 2 && h[0] == 'P' && (h[1] == '3' || h[1] == '6') && (h[2] == '\n' || h[2] == '\r' || h[2] == '\t' || h[2] == ' ')
	}, func(h []byte) bool {
		return len(h) > 2 && h[0] == 'P' && (h[1] == '3' || h[1] == '6') && (h[2] == '\n' || h[2] == '\r' || h[2] == '\t' || h[2] == ' ')
	}},
}

func pad24(s string) []byte {
	b := make([]byte, 24)
	copy(b, s)
	return b
}

var canonHeaders = []struct {
	name string
	h    []byte
	it   imagetype.ImageType
}{
	{"jpeg-jfif", pad24("\xff\xd8\xff\xe0\x00\x10JFIF\x00\x01\x01\x00\x00\x48\x00\x48\x00\x00\xff\xdb\x00\x43"), imagetype.ImageJPEG},
	{"jpeg-exif", pad24("\xff\xd8\xff\xe1\x2a\x18Exif\x00\x00II*\x00\x08\x00\x00\x00\x0b\x00\x0f\x01"), imagetype.ImageJPEG},
	{"jp2", pad24("\x00\x00\x00\x0cjP  \r\n\x87\n\x00\x00\x00\x14ftypjp2 "), imagetype.ImageJPEG},
	{"png", pad24("\x89PNG\r\n\x1a\n\x00\x00\x00\rIHDR\x00\x00\x02\x00\x00\x00\x02\x00"), imagetype.ImagePNG},
	{"gif87", pad24("GIF87a\x10\x00\x10\x00\x80\x00\x00\xff\xff\xff\x00\x00\x00,\x00\x00\x00\x00"), imagetype.ImageGIF},
	{"gif89", pad24("GIF89a\x01\x00\x01\x00\x80\x00\x00\xff\xff\xff\x00\x00\x00!\xf9\x04\x01\x00"), imagetype.ImageGIF},
	{"bmp", pad24("BM\x36\x00\x0c\x00\x00\x00\x00\x00\x36\x00\x00\x00\x28\x00\x00\x00\x00\x02\x00\x00\x00\x02"), imagetype.ImageBMP},
	{"webp", pad24("RIFF\x24\x10\x00\x00WEBPVP8 \x18\x10\x00\x00\x30\x01\x00\x9d"), imagetype.ImageWebP},
	{"tiff-ii", pad24("II*\x00\x08\x00\x00\x00\x0e\x00\x00\x01\x03\x00\x01\x00\x00\x00\x00\x10\x00\x00\x01\x01"), imagetype.ImageTiff},
	{"tiff-mm", pad24("MM\x00*\x00\x00\x00\x08\x00\x0e\x01\x00\x00\x03\x00\x00\x00\x01\x10\x00\x00\x00\x01\x01"), imagetype.ImageTiff},
	{"cr2", pad24("II*\x00\x10\x00\x00\x00CR\x02\x00\x9a\xaf\x00\x00\x11\x00\x00\x01\x03\x00\x01\x00"), imagetype.ImageCR2},
	{"cr2-mm", pad24("MM\x00*\x00\x00\x00\x10CR\x02\x00\x00\x00\xaf\x9a\x00\x11\x01\x00\x00\x03\x00\x00"), imagetype.ImageCR2},
	{"rw2", pad24("IIU\x00\x18\x00\x00\x00\x88\xe7\x74\xd8\xf8\x25\x1d\x4d\x94\x7a\x6e\x77\x82\x2b\x5d\x6a"), imagetype.ImagePanaRAW},
	{"crw", pad24("II\x1a\x00\x00\x00HEAPCCDR\x02\x00\x01\x00\x00\x00\x00\x00\x00\x00"), imagetype.ImageCRW},
	{"cr3", pad24("\x00\x00\x00\x18ftypcrx \x00\x00\x00\x01crx isom"), imagetype.ImageCR3},
	{"avif", pad24("\x00\x00\x00\x1cftypavif\x00\x00\x00\x00avifmif1"), imagetype.ImageAVIF},
	{"avif-mif1", pad24("\x00\x00\x00\x1cftypmif1\x00\x00\x00\x00mif1avif"), imagetype.ImageAVIF},
	{"heic", pad24("\x00\x00\x00\x18ftypheic\x00\x00\x00\x00mif1heic"), imagetype.ImageHEIF},
	{"heix", pad24("\x00\x00\x00\x18ftypheix\x00\x00\x00\x00mif1heix"), imagetype.ImageHEIF},
	{"mif1-heic16", pad24("\x00\x00\x00\x1cftypmif1\x00\x00\x00\x00heicmif1"), imagetype.ImageHEIF},
	{"mif1-heic20", pad24("\x00\x00\x00\x24ftypmif1\x00\x00\x00\x00mif1heic"), imagetype.ImageHEIF},
	{"msf1-hevc", pad24("\x00\x00\x00\x1cftypmsf1\x00\x00\x00\x00msf1hevc"), imagetype.ImageHEIF},
	{"psd", pad24("8BPS\x00\x01\x00\x00\x00\x00\x00\x00\x00\x03\x00\x00\x02\x00\x00\x00\x02\x00\x00\x08"), imagetype.ImagePSD},
	{"xmp", pad24("<x:xmpmeta xmlns:x=\"adob"), imagetype.ImageXMP},
	{"ppm-p3-nl", pad24("P3\n# comment\n4 4\n255\n0 0 "), imagetype.ImagePPM},
	{"ppm-p6-nl", pad24("P6\n640 480\n255\n\x00\x01\x02\x03\x04\x05\x06\x07\x08"), imagetype.ImagePPM},
	{"ppm-p6-sp", pad24("P6 640 480 255\n\x00\x01\x02\x03\x04\x05\x06\x07\x08"), imagetype.ImagePPM},
	{"ppm-p3-tab", pad24("P3\t4 4 255 0 0 0 0 0 0 0 "), imagetype.ImagePPM},
	{"ppm-p6-cr", pad24("P6\r\n4 4\r\n255\r\n\x00\x01\x02\x03\x04\x05\x06\x07"), imagetype.ImagePPM},
	{"dng", pad24("II*\x00\x08\x00\x00\x00\x3a\x00\xfe\x00\x04\x00\x01\x00\x00\x00\x01\x00\x00\x00\x00\x01"), imagetype.ImageTiff},
	{"nef", pad24("MM\x00*\x00\x00\x00\x08\x00\x1b\x00\xfe\x00\x04\x00\x00\x00\x01\x00\x00\x00\x01\x01\x00"), imagetype.ImageTiff},
}

// C09 — image-type sniffing is total, prefix-only, signature-correct.
type C09 struct{}

func (e *C09) ID() string    { return "C09" }
func (e *C09) Level() string { return "exploration" }
func (e *C09) Rule() string {
	return "section A (exhaustive): every single-byte perturbation (24 positions x 256 values) of each of the 31 canonical headers; section B: every canonical header behind short prefixes (byte order marks, blanks, zeros: a signature is where the format puts it), ftyp headers with brand tokens at offsets that are not brand slots, every canonical header followed by random suffixes of length 0..8 KiB and every truncation to 0..23 bytes; section C: seeded random 24-byte strings and two-byte perturbations. Every stream goes through Buf(b), Buf(b[:24]), Scan, ScanBuf and ReadAt (also over an io.ReaderAt that reports io.EOF together with the last bytes), and again through Scan and ScanBuf over readers that deliver it one byte at a time, in uneven short reads, with the last bytes together with io.EOF, and with every other Read returning (0, nil), and through Scan on seekable / ReadAt-capable readers that were already read from; suffixes include runs of the tokens the predicates look for (brands, magic numbers) behind headers whose own slots were blanked. Oracle: all five agree on the type and on the error class; bytes beyond 24 do not matter; ScanBuf leaves the whole stream readable; fewer than 24 bytes gives an error and no type; ErrImageTypeNotFound exactly when the type is unknown; a reported type F requires F's signature per the harness's independent table (liberal form); a header carrying exactly one documented standard signature (strict form, with the precedences CR2 and CRW over TIFF (more specific over generic), major brand among ftyp formats) must be reported as that format; where two signatures match without a documented precedence either is accepted. Non-trivial: the header is within two bytes of a canonical header; distinct = (nearest canonical header, position, result)."
}
func (e *C09) Assumptions() []string {
	return []string{"the signature table is the harness's own, written from the format definitions cited in the package comments; JPEG 2000 is reported as image/jpeg (pinned by the existing test suite)"}
}
func (e *C09) Exhaustive(tier string) bool { return true }
func (e *C09) Plan(tier string, seed uint64) int {
	n := len(canonHeaders)*24 + len(canonHeaders) + 400
	if tier == "thorough" {
		n += 400000
	}
	return n
}
func (e *C09) MinNontrivial(tier string) int { return 500 }

func sniffAll(c *core.Ctx, b []byte) (imagetype.ImageType, bool) {
	type res struct {
		t   imagetype.ImageType
		err error
	}
	var rs [5]res
	names := [5]string{"Buf(b)", "Buf(b[:24])", "Scan", "ScanBuf", "ReadAt"}
	rs[0].t, rs[0].err = imagetype.Buf(b)
	if len(b) >= 24 {
		rs[1].t, rs[1].err = imagetype.Buf(b[:24])
	} else {
		rs[1] = rs[0]
	}
	rs[2].t, rs[2].err = imagetype.Scan(mon.OnlyReader{R: mon.NewRS(b)})
	br := bufio.NewReaderSize(mon.NewRS(b), 64)
	rs[3].t, rs[3].err = imagetype.ScanBuf(br)
	rest, _ := io.ReadAll(br)
	rs[4].t, rs[4].err = imagetype.ReadAt(mon.NewRS(b))
	c.Rec.Eval(5)
	// the stream handed over by a reader that has a history: 1..40 junk bytes were read from it
	// before, and it offers Seek and ReadAt (a sniffer must classify the stream from the current
	// position, not the start of the underlying object)
	{
		junk := []byte("II*\x00\x08\x00\x00\x00junkjunkjunkjunkjunkjunkjunkjunk")[:1+len(b)%40]
		whole := append(append([]byte(nil), junk...), b...)
		r1 := mon.NewRS(whole)
		_, _ = io.ReadFull(r1, make([]byte, len(junk)))
		t1, e1 := imagetype.Scan(r1)
		br := bytes.NewReader(whole)
		_, _ = br.Seek(int64(len(junk)), io.SeekStart)
		t2, e2 := imagetype.Scan(br)
		c.Rec.Eval(2)
		if t1 != rs[0].t || (e1 == nil) != (rs[0].err == nil) || t2 != rs[0].t || (e2 == nil) != (rs[0].err == nil) {
			c.Rec.Violation("sniff:position:Scan", fmt.Sprintf("Scan on a seekable reader positioned %d bytes into its underlying data reports %v/%v (instrumented reader) and %v/%v (bytes.Reader) but Buf(b) reports %v/%v header=%x len=%d", len(junk), t1, e1, t2, e2, rs[0].t, rs[0].err, b[:min(len(b), 24)], len(b)), map[string]any{"header_hex": fmt.Sprintf("%x", b[:min(len(b), 24)]), "len": len(b)})
		}
	}
	// an io.ReaderAt may return io.EOF together with a read that ends exactly at the end of its
	// source (n == len(p), err == EOF is allowed by the interface's contract)
	{
		t3, e3 := imagetype.ReadAt(eofReaderAt(b))
		c.Rec.Eval(1)
		if t3 != rs[0].t || (e3 == nil) != (rs[0].err == nil) {
			c.Rec.Violation("sniff:readat-eof", fmt.Sprintf("ReadAt over a reader that reports io.EOF together with the last bytes gives %v/%v but Buf(b) gives %v/%v header=%x len=%d", t3, e3, rs[0].t, rs[0].err, b[:min(len(b), 24)], len(b)), map[string]any{"header_hex": fmt.Sprintf("%x", b[:min(len(b), 24)]), "len": len(b)})
		}
	}
	// the same stream delivered in pieces (one byte at a time, uneven short reads, last bytes
	// together with io.EOF): a sniffer that trusts a single Read would disagree with itself
	for k, sched := range [][]int{{1}, {10, 3, 7, 1}, nil, {10, 5}} {
		r1 := mon.NewRS(b)
		r1.Sched = sched
		r1.EOFWithData = sched == nil
		r2 := mon.NewRS(b)
		r2.Sched = sched
		r2.EOFWithData = sched == nil
		if k == 3 {
			// every other Read delivers nothing and no error (legal, if discouraged): the stream
			// is the same stream
			r1.ZeroEvery, r2.ZeroEvery = 2, 2
		}
		t1, e1 := imagetype.Scan(mon.OnlyReader{R: r1})
		t2, e2 := imagetype.ScanBuf(bufio.NewReaderSize(mon.OnlyReader{R: r2}, 32))
		c.Rec.Eval(2)
		if t1 != rs[0].t || (e1 == nil) != (rs[0].err == nil) {
			c.Rec.Violation("sniff:chunked:Scan", fmt.Sprintf("Scan over a reader with schedule #%d reports %v/%v but Buf(b) reports %v/%v header=%x len=%d", k, t1, e1, rs[0].t, rs[0].err, b[:min(len(b), 24)], len(b)), map[string]any{"header_hex": fmt.Sprintf("%x", b[:min(len(b), 24)]), "len": len(b), "schedule": k})
		}
		if t2 != rs[0].t || (e2 == nil) != (rs[0].err == nil) {
			c.Rec.Violation("sniff:chunked:ScanBuf", fmt.Sprintf("ScanBuf over a reader with schedule #%d reports %v/%v but Buf(b) reports %v/%v header=%x len=%d", k, t2, e2, rs[0].t, rs[0].err, b[:min(len(b), 24)], len(b)), map[string]any{"header_hex": fmt.Sprintf("%x", b[:min(len(b), 24)]), "len": len(b), "schedule": k})
		}
	}
	ok := true
	viol := func(key, msg string) {
		ok = false
		c.Rec.Violation(key, msg+fmt.Sprintf(" header=%x len=%d", b[:min(len(b), 24)], len(b)), map[string]any{"header_hex": fmt.Sprintf("%x", b[:min(len(b), 24)]), "len": len(b)})
	}
	if !bytes.Equal(rest, b) {
		viol("sniff:consumed", fmt.Sprintf("ScanBuf consumed input: %d of %d bytes readable afterwards", len(rest), len(b)))
	}
	for i := 1; i < 5; i++ {
		if rs[i].t != rs[0].t {
			viol("sniff:disagree:"+names[i], fmt.Sprintf("%s reports %v but Buf(b) reports %v", names[i], rs[i].t, rs[0].t))
		}
		if (rs[i].err == nil) != (rs[0].err == nil) {
			viol("sniff:errclass:"+names[i], fmt.Sprintf("%s error %v but Buf(b) error %v", names[i], rs[i].err, rs[0].err))
		}
	}
	for i := 0; i < 5; i++ {
		if len(b) < 24 {
			if rs[i].err == nil || rs[i].t != imagetype.ImageUnknown {
				viol("sniff:short:"+names[i], fmt.Sprintf("%s returned type %v error %v for a %d-byte stream", names[i], rs[i].t, rs[i].err, len(b)))
			}
			continue
		}
		if (rs[i].t == imagetype.ImageUnknown) != (rs[i].err == imagetype.ErrImageTypeNotFound) {
			viol("sniff:notfound:"+names[i], fmt.Sprintf("%s returned type %v with error %v", names[i], rs[i].t, rs[i].err))
		}
	}
	return rs[0].t, ok
}

func checkSignature(c *core.Ctx, h []byte, t imagetype.ImageType) {
	var strict, sound []sigFmt
	for _, f := range sigTable {
		if f.strict(h) {
			strict = append(strict, f)
		}
		if f.sound(h) {
			sound = append(sound, f)
		}
	}
	viol := func(key, msg string) {
		c.Rec.Violation(key, msg+fmt.Sprintf(" header=%x", h[:24]), map[string]any{"header_hex": fmt.Sprintf("%x", h[:24]), "reported": t.String()})
	}
	if t != imagetype.ImageUnknown {
		okS := false
		for _, f := range sound {
			if f.it == t {
				okS = true
			}
		}
		if !okS {
			viol("sniff:unsound:"+t.String(), fmt.Sprintf("reported %v for a header that does not carry that format's signature", t))
		}
	}
	if len(strict) == 0 {
		return
	}
	// acceptable answers among the strict matches, after documented precedences
	acc := map[imagetype.ImageType]bool{}
	has := func(n string) bool {
		for _, f := range strict {
			if f.name == n {
				return true
			}
		}
		return false
	}
	for _, f := range strict {
		acc[f.it] = true
	}
	if has("cr2") || has("crw") {
		// the more specific format wins over the generic one: CR2 (TIFF + CR marker) and CRW (byte
		// order + the ten-byte HEAPCCDR signature; it overlaps the four-byte TIFF magic only when
		// its header-length field happens to be 42) over plain TIFF
		delete(acc, imagetype.ImageTiff)
	}
	if has("cr3") { // chosen by major brand
		delete(acc, imagetype.ImageAVIF)
		delete(acc, imagetype.ImageHEIF)
	}
	if has("avif") && has("heif") {
		if at(h, 8, "avif") {
			delete(acc, imagetype.ImageHEIF)
		} else if at(h, 8, "heic") || at(h, 8, "heix") {
			delete(acc, imagetype.ImageAVIF)
		}
	}
	if !acc[t] {
		names := ""
		for _, f := range strict {
			names += f.name + " "
		}
		viol("sniff:missed:"+names, fmt.Sprintf("header carries the standard signature of [%s] but was reported as %v", names, t))
	}
}

func (e *C09) Run(c *core.Ctx, idx int) {
	nA := len(canonHeaders) * 24
	switch {
	case idx < nA:
		hi, pos := idx/24, idx%24
		ch := canonHeaders[hi]
		for v := 0; v < 256; v++ {
			h := append([]byte(nil), ch.h...)
			h[pos] = byte(v)
			t, _ := sniffAll(c, h)
			checkSignature(c, h, t)
			c.Rec.SigHash(core.HashStr(fmt.Sprintf("%s|%d|%d", ch.name, pos, t)))
		}
		if c.Rec.WantSample() && pos == 8 {
			c.Rec.Sample(map[string]any{"kind": "single-byte perturbation x256", "canonical": ch.name, "position": pos, "header_hex": fmt.Sprintf("%x", ch.h)})
		}
	case idx < nA+len(canonHeaders):
		ch := canonHeaders[idx-nA]
		r := c.Rng(idx)
		t0, _ := sniffAll(c, ch.h)
		if t0 != ch.it {
			c.Rec.Violation("sniff:canonical:"+ch.name, fmt.Sprintf("canonical %s header reported as %v, want %v", ch.name, t0, ch.it), map[string]any{"header_hex": fmt.Sprintf("%x", ch.h)})
		}
		for k := 0; k < 40; k++ {
			n := r.Pick(0, 1, 8, 40, 4072, 4073, 8192)
			if k > 6 {
				n = r.Intn(8193)
			}
			b := append(append([]byte(nil), ch.h...), r.Bytes(n)...)
			t, _ := sniffAll(c, b)
			if t != t0 {
				c.Rec.Violation("sniff:suffix", fmt.Sprintf("%s header: type depends on bytes after the first 24 (%v vs %v, suffix %d bytes)", ch.name, t, t0, n), map[string]any{"header_hex": fmt.Sprintf("%x", ch.h), "suffix_len": n})
			}
		}
		// the signature is where the format puts it, not a few bytes further on: the canonical
		// header behind a byte order mark, blanks, zeros or other short prefixes (the sniffers must
		// agree, and the reported type needs its signature at its place per the table)
		for _, pre := range []string{"\xef\xbb\xbf", "\xfe\xff", "\xff\xfe", "\x00", " ", "\n", "\x00\x00\x00", "\xff", "\r\n\r\n"} {
			b := append([]byte(pre), ch.h...)
			for _, k := range []int{len(b), 24} {
				t, _ := sniffAll(c, append([]byte(nil), b[:k]...)) // exact capacity: no bytes behind the slice
				checkSignature(c, b[:k], t)
			}
		}
		if string(ch.h[4:8]) == "ftyp" {
			// brand tokens at offsets that are not brand slots (the letters straddle two brands)
			for _, tok := range []string{"heic", "avif", "hevc", "heix", "crx "} {
				for off := 13; off <= 23; off++ {
					if off%4 == 0 {
						continue
					}
					h := append([]byte(nil), ch.h...)
					copy(h[8:12], r.PickStr("mif1", "msf1", "isom"))
					for i := 12; i < 24; i++ {
						h[i] = byte(r.Pick('M', 'X', 0, ' '))
					}
					b := append(h, "XXXXXXXX"...)
					copy(b[off:], tok)
					t, _ := sniffAll(c, b)
					checkSignature(c, b, t)
				}
			}
		}
		// suffixes made of the tokens the predicates look for (brands, magic numbers), 4-byte
		// aligned and not, behind the canonical header and behind variants of it whose own brand /
		// magic slots were blanked (so that only bytes beyond 24 could supply the signature)
		frags := []string{"heic", "heix", "mif1", "avif", "crx ", "msf1", "hevc", "miaf", "II*\x00", "MM\x00*", "HEAPCCDR", "CR\x02\x00", "WEBP", "ftyp", "8BPS", "<x:xmpmeta", "\xff\xd8\xff", "\x89PNG"}
		for k := 0; k < 60; k++ {
			h := append([]byte(nil), ch.h...)
			if k%3 != 0 {
				lo := r.Pick(8, 12, 16, 20)
				for i := lo; i < lo+4 && i < 24; i++ {
					h[i] = byte(r.Pick(0, ' ', 'x'))
				}
			}
			var sfx []byte
			if k%4 == 1 {
				sfx = r.Bytes(r.Intn(4))
			}
			for j := r.Range(1, 6); j > 0; j-- {
				sfx = append(sfx, frags[r.Intn(len(frags))]...)
			}
			t24, _ := sniffAll(c, h)
			b := append(h, sfx...)
			t, _ := sniffAll(c, b)
			if t != t24 {
				c.Rec.Violation("sniff:suffix", fmt.Sprintf("%s-like header: type depends on bytes after the first 24 (%v with the suffix %q, %v without)", ch.name, t, sfx, t24), map[string]any{"header_hex": fmt.Sprintf("%x", h), "suffix": string(sfx)})
			}
		}
		if string(ch.h[4:8]) == "ftyp" {
			// exhaustively: every brand token in the compatible-brand slots beyond byte 24, with the
			// in-header slots blanked or not and the box size field covering those slots or not
			for _, brand := range []string{"heic", "heix", "avif", "mif1", "crx ", "msf1", "hevc", "miaf"} {
				for blank := 0; blank < 4; blank++ {
					for _, size := range []int{-1, 28, 32, 40} {
						for _, lead := range []string{"", "miaf", "\x00\x00\x00\x00"} {
							h := append([]byte(nil), ch.h...)
							if blank&1 != 0 {
								copy(h[16:20], "    ")
							}
							if blank&2 != 0 {
								copy(h[20:24], "    ")
							}
							if size > 0 {
								h[0], h[1], h[2], h[3] = 0, 0, 0, byte(size)
							}
							t24, _ := sniffAll(c, h)
							b := append(h, lead+brand+"\x00\x00\x00\x00mdat"...)
							t, _ := sniffAll(c, b)
							if t != t24 {
								c.Rec.Violation("sniff:suffix", fmt.Sprintf("%s-like ftyp header: type depends on the brand %q after the first 24 bytes (%v with it, %v without)", ch.name, brand, t, t24), map[string]any{"header_hex": fmt.Sprintf("%x", h), "suffix": lead + brand})
							}
						}
					}
				}
			}
		}
		for n := 0; n < 24; n++ {
			sniffAll(c, ch.h[:n])
		}
		c.Rec.Sig("suffix+trunc|" + ch.name)
	default:
		r := c.Rng(idx)
		for k := 0; k < 256; k++ {
			var h []byte
			near := ""
			if r.Bool() {
				ch := canonHeaders[r.Intn(len(canonHeaders))]
				h = append([]byte(nil), ch.h...)
				p1, p2 := r.Intn(24), r.Intn(24)
				h[p1] = byte(r.Intn(256))
				h[p2] ^= byte(1 << uint(r.Intn(8)))
				near = fmt.Sprintf("%s|%d|%d", ch.name, p1, p2)
			} else {
				h = r.Bytes(24)
				if r.Bool() { // random but with a real magic prefix
					ch := canonHeaders[r.Intn(len(canonHeaders))]
					copy(h, ch.h[:r.Range(2, 12)])
				}
			}
			t, _ := sniffAll(c, h)
			checkSignature(c, h, t)
			if near != "" {
				c.Rec.SigHash(core.HashStr(fmt.Sprintf("%s|%d", near, t)))
			}
		}
	}
}

// eofReaderAt reports io.EOF whenever a read reaches the end of its bytes, also when the read was
// satisfied in full.
type eofReaderAt []byte

func (e eofReaderAt) ReadAt(p []byte, off int64) (int, error) {
	if off >= int64(len(e)) {
		return 0, io.EOF
	}
	n := copy(p, e[off:])
	if int(off)+n == len(e) {
		return n, io.EOF
	}
	return n, nil
}
