package props

import (
	"bytes"
	"encoding/json"
	"fmt"
	"math"
	"runtime/debug"
	"strings"

	"github.com/evanoberholster/imagemeta/imagehash"
	"github.com/evanoberholster/imagemeta/imagetype"
	"github.com/evanoberholster/imagemeta/meta"
	"github.com/evanoberholster/imagemeta/meta/canon"
	"github.com/tinylib/msgp/msgp"

	"verif/harness/internal/core"
)

// C16 — value types survive text/JSON/MessagePack round trips; parsers are total.
type C16 struct{}

const c16Parts = 16

func (e *C16) ID() string    { return "C16" }
func (e *C16) Level() string { return "exploration" }
func (e *C16) Rule() string {
	return "jobs, each split in 16 parts: (1) MessagePack on every generated type (MarshalMsg/UnmarshalMsg, EncodeMsg/DecodeMsg, Msgsize >= encoded length, no left-over bytes, and both decoders again into a target that holds the previous value): all 2^8 / 2^16 values of the 8/16-bit types (ImageType, FlashMode, MeteringMode, ExposureMode, ExposureProgram, Flash, Orientation, Compression, ExposureBias, the eight Canon int16 enums), grids plus random bit patterns for the float32 types, Dimensions, Ahash, PHash64, PHash256, FocusDistance; (2) text and encoding/json (value alone and inside a struct) for ImageType, MeteringMode (text and JSON number), ExposureMode, ExposureProgram, ExposureBias (all 65536 encodings), Aperture, FocalLength, ExposureTime, UUID (canonical, hash-like, braced, URN forms x case), hash Encode/Decode with exact-size buffers, UUID binary; every JSON decode is repeated into a target that already holds the previous valid value, and the encoding of the zero value is decoded into a target that holds v (a reused struct must not show what it held); (2b) the map-encoded type (Dimensions) is given a megabyte of nested arrays under an unknown key, each decoder in a case of its own, the worker's stack limit lowered to 16 MB; (3) totality: every decoder with an error result (text, JSON, binary, msgp) fed empty, one-byte, truncated-valid, mutated-valid and random input plus the strings m, /, 1/0, +, -/, mm and numbers at the width boundaries of the integer types (255/256, 65535/65536/131072, 2^31, 2^32, 2^63, 2^64, 2^128) alone, as either half of a fraction, as decimals and with unit suffixes. Oracle: Unmarshal(Marshal(v)) == v for valid v (documented enum members, numbers representable at the textual precision, every value for binary forms); Marshal(Unmarshal(Marshal(v))) == Marshal(v) for every v whose encoding the decoder accepts; no panic. Distinct = (type, form, encoded length and leading byte for MessagePack / text length and validity class for text), a measured count of distinct encodings shapes, plus one per job part."
}
func (e *C16) Assumptions() []string {
	return []string{"valid values: documented enum members; Aperture/FocalLength multiples of 0.01 below 10000; ExposureTime 1/n for integer n and x.xx >= 1; all 65536 ExposureBias encodings",
		"hash Encode/Decode have no error result, so buffers shorter than the value are outside 'decoder returns a value or an error'"}
}
func (e *C16) Exhaustive(tier string) bool   { return true }
func (e *C16) MinNontrivial(tier string) int { return 100 }

// InitWorker lowers the goroutine stack limit from 1 GB to 16 MB (see C01): a decoder that
// recurses once per nesting level of its input overflows on a megabyte instead of on 16 MB.
func (e *C16) InitWorker(c *core.Ctx) { debug.SetMaxStack(16 << 20) }

type c16job struct {
	name string
	run  func(c *core.Ctx, r *core.Rng, part int)
}

func (e *C16) Plan(tier string, seed uint64) int { return len(c16jobs()) * c16Parts }

func (e *C16) Run(c *core.Ctx, idx int) {
	jobs := c16jobs()
	j := jobs[idx/c16Parts]
	c.SetPhase(j.name)
	j.run(c, c.Rng(idx), idx%c16Parts)
}

// ---- msgp helpers

type msgpVal interface {
	MarshalMsg([]byte) ([]byte, error)
	EncodeMsg(*msgp.Writer) error
	Msgsize() int
}

type msgpPtr[T any] interface {
	*T
	UnmarshalMsg([]byte) ([]byte, error)
	DecodeMsg(*msgp.Reader) error
}

func c16viol(c *core.Ctx, key, msg string) {
	c.Rec.Violation(key, msg, map[string]any{"what": msg})
}

func msgpRT[T comparable, PT msgpPtr[T]](c *core.Ctx, typ string, v T, enc msgpVal) {
	c.Rec.Eval(1)
	pk, key, text := core.Guard(func() {
		b, err := enc.MarshalMsg(nil)
		if err != nil {
			c16viol(c, "msgp:marshal:"+typ, fmt.Sprintf("%s(%v).MarshalMsg: %v", typ, v, err))
			return
		}
		c.Rec.SigHash(core.HashStr(fmt.Sprintf("msgp|%s|%d|%x", typ, len(b), b[0])))
		if len(b) > enc.Msgsize() {
			c16viol(c, "msgp:msgsize:"+typ, fmt.Sprintf("%s(%v): Msgsize %d < encoded length %d", typ, v, enc.Msgsize(), len(b)))
		}
		var out T
		rest, err := PT(&out).UnmarshalMsg(b)
		if err != nil || len(rest) != 0 || out != v {
			c16viol(c, "msgp:roundtrip:"+typ, fmt.Sprintf("%s: UnmarshalMsg(MarshalMsg(%v)) = %v, rest %d, err %v", typ, v, out, len(rest), err))
		}
		var buf bytes.Buffer
		w := msgp.NewWriter(&buf)
		if err := enc.EncodeMsg(w); err != nil {
			c16viol(c, "msgp:encode:"+typ, fmt.Sprintf("%s(%v).EncodeMsg: %v", typ, v, err))
			return
		}
		_ = w.Flush()
		if !bytes.Equal(buf.Bytes(), b) {
			c16viol(c, "msgp:encode-vs-marshal:"+typ, fmt.Sprintf("%s(%v): EncodeMsg and MarshalMsg differ (%x vs %x)", typ, v, buf.Bytes(), b))
		}
		var out2 T
		if err := PT(&out2).DecodeMsg(msgp.NewReader(bytes.NewReader(buf.Bytes()))); err != nil || out2 != v {
			c16viol(c, "msgp:decode:"+typ, fmt.Sprintf("%s: DecodeMsg(EncodeMsg(%v)) = %v err %v", typ, v, out2, err))
		}
		// into a target that already holds the previous value of this type
		if pv, ok := c16prev["msgp|"+typ]; ok {
			out3 := pv.(T)
			if _, err := PT(&out3).UnmarshalMsg(b); err != nil || out3 != v {
				c16viol(c, "msgp:dirty-target:"+typ, fmt.Sprintf("%s: UnmarshalMsg(MarshalMsg(%v)) into a target that held %v = %v err %v", typ, v, pv, out3, err))
			}
			out4 := pv.(T)
			if err := PT(&out4).DecodeMsg(msgp.NewReader(bytes.NewReader(b))); err != nil || out4 != v {
				c16viol(c, "msgp:dirty-target:"+typ, fmt.Sprintf("%s: DecodeMsg(EncodeMsg(%v)) into a target that held %v = %v err %v", typ, v, pv, out4, err))
			}
		}
		c16prev["msgp|"+typ] = v
	})
	if pk {
		c16viol(c, "msgp:"+key, fmt.Sprintf("%s(%v) msgp round trip panicked: %s", typ, v, firstLineOf(text)))
	}
}

func msgpTotal[T any, PT msgpPtr[T]](c *core.Ctx, typ string, in []byte) {
	c.Rec.Eval(2)
	pk, key, text := core.Guard(func() {
		var out T
		_, _ = PT(&out).UnmarshalMsg(in)
		var out2 T
		_ = PT(&out2).DecodeMsg(msgp.NewReader(bytes.NewReader(in)))
	})
	if pk {
		c16viol(c, "msgp:total:"+key, fmt.Sprintf("%s msgp decoder panicked on input %x: %s", typ, in, firstLineOf(text)))
	}
}

func hostileInputs(r *core.Rng, valid [][]byte) [][]byte {
	out := [][]byte{{}, {0}, {0xff}, []byte("m"), []byte("/"), []byte("1/0"), []byte("+"), []byte("-/"), []byte("mm"), []byte("0"), []byte("0/"), []byte("/0"), []byte("-"), []byte("+/"),
		[]byte("1/"), []byte("null"), []byte("\"\""), []byte("\"m\""), []byte("\"1/0\""), []byte("{}"), []byte("[]"), []byte("-1"), []byte("1e400"), []byte("NaN"), []byte("0x10"), []byte(strings.Repeat("9", 400))}
	// numbers at the width boundaries of the integer types, alone, as both halves of a fraction, as
	// decimals and with the unit suffixes the text forms use
	nums := []string{"0", "1", "127", "128", "255", "256", "32767", "32768", "65535", "65536", "65537", "131072", "2147483647", "2147483648", "4294967295", "4294967296", "4294967297",
		"9223372036854775807", "9223372036854775808", "18446744073709551615", "18446744073709551616", "340282366920938463463374607431768211456"}
	for i, a := range nums {
		b := nums[(i*7+3)%len(nums)]
		for _, f := range []string{a, a + "/" + b, b + "/" + a, "1/" + a, a + "/1", a + "." + b, "+" + a + "/" + b, "-" + a + "/" + b, a + "mm", a + ".00mm", "\"" + a + "/" + b + "\"", "\"1/" + a + "\"", a + "/" + a} {
			out = append(out, []byte(f))
		}
	}
	for _, v := range valid {
		for k := 0; k <= len(v); k++ {
			out = append(out, v[:k])
		}
		for k := 0; k < 6 && len(v) > 0; k++ {
			m := append([]byte(nil), v...)
			m[r.Intn(len(m))] = byte(r.Intn(256))
			out = append(out, m)
		}
	}
	for k := 0; k < 40; k++ {
		out = append(out, r.Bytes(r.Intn(48)))
	}
	return out
}

type textCodec[T comparable] struct {
	typ   string
	enc   func(T) ([]byte, error)
	dec   func([]byte) (T, error)
	jsonV bool // the type round-trips through encoding/json via these methods
	// decInto decodes into a target that already holds another value (a reused struct): what was
	// there must not show through
	decInto func(b []byte, preset T) (T, error)
}

// c16prev remembers, per codec, the last valid value seen: the preset of the next dirty-target decode.
var c16prev = map[string]any{}
var c16cnt = map[string]int{}

// textRT checks one value. valid: Unmarshal(Marshal(v)) must be v. Always: idempotence when accepted.
func textRT[T comparable](c *core.Ctx, tc textCodec[T], v T, valid bool) {
	c.Rec.Eval(1)
	pk, key, text := core.Guard(func() {
		b, err := tc.enc(v)
		if err != nil {
			c16viol(c, "text:marshal:"+tc.typ, fmt.Sprintf("%s(%v) marshal: %v", tc.typ, v, err))
			return
		}
		c.Rec.SigHash(core.HashStr(fmt.Sprintf("text|%s|%d|%v", tc.typ, len(b), valid)))
		out, err := tc.dec(b)
		if valid && (err != nil || out != v) {
			c16viol(c, "text:roundtrip:"+tc.typ, fmt.Sprintf("%s: decode(encode(%v)=%q) = %v err %v", tc.typ, v, b, out, err))
			return
		}
		if tc.decInto != nil && err == nil {
			if pv, ok := c16prev[tc.typ]; ok {
				out2, err2 := tc.decInto(b, pv.(T))
				if err2 != nil || out2 != out {
					c16viol(c, "text:dirty-target:"+tc.typ, fmt.Sprintf("%s: %q decodes to %v into a zero target and to %v (err %v) into a target that held %v", tc.typ, b, out, out2, err2, pv))
				}
			}
			if valid {
				c16prev[tc.typ] = v
				// and the encoding of the zero value into a target that holds v (every 8th value):
				// "nothing to report" must still overwrite
				c16cnt[tc.typ]++
				var z T
				if c16cnt[tc.typ]%8 == 1 && v != z {
					if bz, ez := tc.enc(z); ez == nil {
						if o0, e0 := tc.dec(bz); e0 == nil {
							if o1, e1 := tc.decInto(bz, v); e1 != nil || o1 != o0 {
								c16viol(c, "text:dirty-target:"+tc.typ, fmt.Sprintf("%s: %q (the zero value) decodes to %v into a zero target and to %v (err %v) into a target that held %v", tc.typ, bz, o0, o1, e1, v))
							}
						}
					}
				}
			}
		}
		if err == nil {
			b2, err2 := tc.enc(out)
			if err2 != nil || !bytes.Equal(b, b2) {
				c16viol(c, "text:idempotent:"+tc.typ, fmt.Sprintf("%s: encode(decode(encode(%v))) = %q but encode(%v) = %q", tc.typ, v, b2, v, b))
			}
		}
	})
	if pk {
		c16viol(c, "text:"+key, fmt.Sprintf("%s(%v) text round trip panicked: %s", tc.typ, v, firstLineOf(text)))
	}
}

func textTotal[T comparable](c *core.Ctx, tc textCodec[T], in []byte) {
	c.Rec.Eval(1)
	pk, key, text := core.Guard(func() { _, _ = tc.dec(in) })
	if pk {
		c16viol(c, "text:total:"+key, fmt.Sprintf("%s decoder panicked on input %q: %s", tc.typ, in, firstLineOf(text)))
	}
}

func jsonCodec[T comparable](typ string) textCodec[T] {
	return textCodec[T]{typ: typ + "/json", enc: func(v T) ([]byte, error) { return json.Marshal(v) }, dec: func(b []byte) (T, error) {
		var o T
		err := json.Unmarshal(b, &o)
		return o, err
	}, decInto: func(b []byte, preset T) (T, error) {
		o := preset
		err := json.Unmarshal(b, &o)
		return o, err
	}}
}

func jsonStructCodec[T comparable](typ string) textCodec[T] {
	type wrap struct {
		A int
		V T
		B string
	}
	return textCodec[T]{typ: typ + "/json-struct", enc: func(v T) ([]byte, error) { return json.Marshal(wrap{7, v, "x"}) }, dec: func(b []byte) (T, error) {
		var o wrap
		err := json.Unmarshal(b, &o)
		return o.V, err
	}, decInto: func(b []byte, preset T) (T, error) {
		o := wrap{1, preset, "y"}
		err := json.Unmarshal(b, &o)
		return o.V, err
	}}
}

// jsonKeyCodec round-trips the value as the key of a JSON object: encoding/json writes keys with
// MarshalText and hands them back quoted - to UnmarshalJSON when the type has one, otherwise to
// UnmarshalText.
func jsonKeyCodec[T comparable](typ string) textCodec[T] {
	one := func(b []byte, m map[T]int) (T, error) {
		var zero T
		if err := json.Unmarshal(b, &m); err != nil {
			return zero, err
		}
		for k, v := range m {
			if v == 1 {
				return k, nil
			}
		}
		return zero, fmt.Errorf("key lost")
	}
	return textCodec[T]{typ: typ + "/json-key", enc: func(v T) ([]byte, error) { return json.Marshal(map[T]int{v: 1}) }, dec: func(b []byte) (T, error) {
		return one(b, map[T]int{})
	}, decInto: func(b []byte, preset T) (T, error) {
		return one(b, map[T]int{preset: 2})
	}}
}

func inPart(i, part int) bool { return i%c16Parts == part }

func f32grid(r *core.Rng, part int, f func(v float32, valid bool)) {
	// multiples of 0.01 (representable at the textual precision)
	for k := part; k < 1000000; k += c16Parts * 7 {
		f(float32(float64(k)/100), true)
	}
	for k := 0; k < 3000; k++ {
		f(math.Float32frombits(r.U32()), false)
	}
	for _, v := range []float32{0, 1, 0.5, 1.4, 2.8, 22, 1e-3, 1e9, 3.4e38, -1, float32(math.Inf(1)), float32(math.Inf(-1))} {
		f(v, false)
	}
}

func c16jobs() []c16job {
	var jobs []c16job
	add := func(name string, f func(c *core.Ctx, r *core.Rng, part int)) {
		jobs = append(jobs, c16job{name, func(c *core.Ctx, r *core.Rng, part int) {
			f(c, r, part)
			c.Rec.Sig(fmt.Sprintf("%s|part%d", name, part))
		}})
	}
	// ---------- msgp: 8/16-bit domains exhaustively
	add("msgp/uint8+16", func(c *core.Ctx, r *core.Rng, part int) {
		for i := 0; i < 256; i++ {
			if !inPart(i, part) {
				continue
			}
			msgpRT[imagetype.ImageType](c, "ImageType", imagetype.ImageType(i), imagetype.ImageType(i))
			msgpRT[meta.FlashMode](c, "FlashMode", meta.FlashMode(i), meta.FlashMode(i))
		}
		for i := 0; i < 65536; i++ {
			if !inPart(i, part) {
				continue
			}
			u := uint16(i)
			s := int16(u)
			msgpRT[meta.MeteringMode](c, "MeteringMode", meta.MeteringMode(u), meta.MeteringMode(u))
			msgpRT[meta.ExposureMode](c, "ExposureMode", meta.ExposureMode(u), meta.ExposureMode(u))
			msgpRT[meta.ExposureProgram](c, "ExposureProgram", meta.ExposureProgram(u), meta.ExposureProgram(u))
			msgpRT[meta.Flash](c, "Flash", meta.Flash(u), meta.Flash(u))
			msgpRT[meta.Orientation](c, "Orientation", meta.Orientation(u), meta.Orientation(u))
			msgpRT[meta.Compression](c, "Compression", meta.Compression(u), meta.Compression(u))
			msgpRT[meta.ExposureBias](c, "ExposureBias", meta.ExposureBias(s), meta.ExposureBias(s))
			msgpRT[canon.ContinuousDrive](c, "canon.ContinuousDrive", canon.ContinuousDrive(s), canon.ContinuousDrive(s))
			msgpRT[canon.FocusMode](c, "canon.FocusMode", canon.FocusMode(s), canon.FocusMode(s))
			msgpRT[canon.MeteringMode](c, "canon.MeteringMode", canon.MeteringMode(s), canon.MeteringMode(s))
			msgpRT[canon.FocusRange](c, "canon.FocusRange", canon.FocusRange(s), canon.FocusRange(s))
			msgpRT[canon.ExposureMode](c, "canon.ExposureMode", canon.ExposureMode(s), canon.ExposureMode(s))
			msgpRT[canon.BracketMode](c, "canon.BracketMode", canon.BracketMode(s), canon.BracketMode(s))
			msgpRT[canon.AESetting](c, "canon.AESetting", canon.AESetting(s), canon.AESetting(s))
			msgpRT[canon.AFAreaMode](c, "canon.AFAreaMode", canon.AFAreaMode(s), canon.AFAreaMode(s))
		}
	})
	add("msgp/float+wide", func(c *core.Ctx, r *core.Rng, part int) {
		f32grid(r, part, func(v float32, _ bool) {
			if v != v {
				return // NaN != NaN: bit-level comparison is done by the float codec of msgp itself
			}
			msgpRT[meta.Aperture](c, "Aperture", meta.Aperture(v), meta.Aperture(v))
			msgpRT[meta.FocalLength](c, "FocalLength", meta.FocalLength(v), meta.FocalLength(v))
			msgpRT[meta.ExposureTime](c, "ExposureTime", meta.ExposureTime(v), meta.ExposureTime(v))
		})
		for k := 0; k < 20000; k++ {
			d := meta.Dimensions{Width: r.U32(), Height: r.U32()}
			if k%3 == 0 {
				d = meta.Dimensions{Width: uint32(r.Pick(0, 1, 127, 128, 255, 256, 65535, 65536)), Height: uint32(r.Pick(0, 1, 0x7fffffff, 0xffffffff))}
			}
			msgpRT[meta.Dimensions](c, "Dimensions", d, d)
			h := r.U64() >> uint(r.Intn(64))
			msgpRT[imagehash.Ahash](c, "Ahash", imagehash.Ahash(h), imagehash.Ahash(h))
			msgpRT[imagehash.PHash64](c, "PHash64", imagehash.PHash64(h), imagehash.PHash64(h))
			p := imagehash.PHash256{r.U64(), r.U64() >> uint(r.Intn(64)), 0, r.U64()}
			msgpRT[imagehash.PHash256](c, "PHash256", p, &p)
			fd := canon.FocusDistance{int16(r.U32()), int16(r.U32())}
			msgpRT[canon.FocusDistance](c, "canon.FocusDistance", fd, &fd)
		}
	})
	add("msgp/totality", func(c *core.Ctx, r *core.Rng, part int) {
		var valid [][]byte
		b1, _ := meta.Dimensions{Width: 70000, Height: 3}.MarshalMsg(nil)
		p := imagehash.PHash256{1, 2, 3, 1 << 63}
		b2, _ := p.MarshalMsg(nil)
		b3, _ := meta.Aperture(2.8).MarshalMsg(nil)
		b4, _ := meta.ExposureBias(-253).MarshalMsg(nil)
		fd := canon.FocusDistance{-1, 300}
		b5, _ := fd.MarshalMsg(nil)
		b6, _ := imagehash.PHash64(1 << 63).MarshalMsg(nil)
		valid = append(valid, b1, b2, b3, b4, b5, b6)
		for _, in := range hostileInputs(r, valid) {
			msgpTotal[imagetype.ImageType](c, "ImageType", in)
			msgpTotal[meta.FlashMode](c, "FlashMode", in)
			msgpTotal[meta.MeteringMode](c, "MeteringMode", in)
			msgpTotal[meta.ExposureMode](c, "ExposureMode", in)
			msgpTotal[meta.ExposureProgram](c, "ExposureProgram", in)
			msgpTotal[meta.Flash](c, "Flash", in)
			msgpTotal[meta.Orientation](c, "Orientation", in)
			msgpTotal[meta.Compression](c, "Compression", in)
			msgpTotal[meta.ExposureBias](c, "ExposureBias", in)
			msgpTotal[meta.Aperture](c, "Aperture", in)
			msgpTotal[meta.FocalLength](c, "FocalLength", in)
			msgpTotal[meta.ExposureTime](c, "ExposureTime", in)
			msgpTotal[meta.Dimensions](c, "Dimensions", in)
			msgpTotal[imagehash.Ahash](c, "Ahash", in)
			msgpTotal[imagehash.PHash64](c, "PHash64", in)
			msgpTotal[imagehash.PHash256](c, "PHash256", in)
			msgpTotal[canon.FocusDistance](c, "canon.FocusDistance", in)
			msgpTotal[canon.FocusMode](c, "canon.FocusMode", in)
			msgpTotal[canon.ContinuousDrive](c, "canon.ContinuousDrive", in)
			msgpTotal[canon.AFAreaMode](c, "canon.AFAreaMode", in)
		}
	})
	// ---------- text / JSON
	add("msgp/deep-nesting", func(c *core.Ctx, r *core.Rng, part int) {
		// a map with one unknown key whose value is a megabyte of nested one-element arrays: the
		// decoders skip values of unknown keys. With the worker's stack limit at 16 MB, a skip that
		// recurses once per level dies here; one decoder per case, a crash ends the worker.
		if part > 1 {
			return
		}
		in := append([]byte{0x81, 0xa1, 'x'}, bytes.Repeat([]byte{0x91}, 1<<20)...)
		in = append(in, 0xc0)
		var d meta.Dimensions
		c.Rec.Eval(1)
		pk, key, text := core.Guard(func() {
			if part == 0 {
				_, _ = d.UnmarshalMsg(in)
			} else {
				_ = d.DecodeMsg(msgp.NewReader(bytes.NewReader(in)))
			}
		})
		if pk {
			c16viol(c, "msgp:total:"+key, "Dimensions msgp decoder panicked on deeply nested input: "+firstLineOf(text))
		}
	})
	add("text/enums", func(c *core.Ctx, r *core.Rng, part int) {
		itC := textCodec[imagetype.ImageType]{typ: "ImageType/text", enc: func(v imagetype.ImageType) ([]byte, error) { return v.MarshalText() }, dec: func(b []byte) (imagetype.ImageType, error) {
			var o imagetype.ImageType
			err := o.UnmarshalText(b)
			return o, err
		}}
		for i := 0; i < 256; i++ {
			if !inPart(i, part) {
				continue
			}
			v := imagetype.ImageType(i)
			textRT(c, itC, v, i <= 23)
			textRT(c, jsonCodec[imagetype.ImageType]("ImageType"), v, i <= 23)
			textRT(c, jsonStructCodec[imagetype.ImageType]("ImageType"), v, i <= 23)
			textRT(c, jsonKeyCodec[imagetype.ImageType]("ImageType"), v, i <= 23)
		}
		mmT := textCodec[meta.MeteringMode]{typ: "MeteringMode/text", enc: func(v meta.MeteringMode) ([]byte, error) { return v.MarshalText() }, dec: func(b []byte) (meta.MeteringMode, error) {
			var o meta.MeteringMode
			err := o.UnmarshalText(b)
			return o, err
		}}
		emT := textCodec[meta.ExposureMode]{typ: "ExposureMode/text", enc: func(v meta.ExposureMode) ([]byte, error) { return v.MarshalText() }, dec: func(b []byte) (meta.ExposureMode, error) {
			var o meta.ExposureMode
			err := o.UnmarshalText(b)
			return o, err
		}}
		epT := textCodec[meta.ExposureProgram]{typ: "ExposureProgram/text", enc: func(v meta.ExposureProgram) ([]byte, error) { return v.MarshalText() }, dec: func(b []byte) (meta.ExposureProgram, error) {
			var o meta.ExposureProgram
			err := o.UnmarshalText(b)
			return o, err
		}}
		ebT := textCodec[meta.ExposureBias]{typ: "ExposureBias/text", enc: func(v meta.ExposureBias) ([]byte, error) { return v.MarshalText() }, dec: func(b []byte) (meta.ExposureBias, error) {
			var o meta.ExposureBias
			err := o.UnmarshalText(b)
			return o, err
		}}
		for i := 0; i < 65536; i++ {
			if !inPart(i, part) {
				continue
			}
			u := uint16(i)
			mmValid := u <= 6 || u == 255
			textRT(c, mmT, meta.MeteringMode(u), mmValid)
			textRT(c, jsonCodec[meta.MeteringMode]("MeteringMode"), meta.MeteringMode(u), u <= 255)
			textRT(c, jsonStructCodec[meta.MeteringMode]("MeteringMode"), meta.MeteringMode(u), u <= 255)
			textRT(c, jsonKeyCodec[meta.MeteringMode]("MeteringMode"), meta.MeteringMode(u), mmValid)
			textRT(c, emT, meta.ExposureMode(u), u <= 2)
			textRT(c, jsonCodec[meta.ExposureMode]("ExposureMode"), meta.ExposureMode(u), u <= 2)
			textRT(c, jsonKeyCodec[meta.ExposureMode]("ExposureMode"), meta.ExposureMode(u), u <= 2)
			textRT(c, epT, meta.ExposureProgram(u), u <= 9)
			textRT(c, jsonCodec[meta.ExposureProgram]("ExposureProgram"), meta.ExposureProgram(u), u <= 9)
			textRT(c, jsonKeyCodec[meta.ExposureProgram]("ExposureProgram"), meta.ExposureProgram(u), u <= 9)
			eb := meta.ExposureBias(int16(u))
			textRT(c, ebT, eb, true)
			textRT(c, jsonCodec[meta.ExposureBias]("ExposureBias"), eb, true)
			if i%7 == 0 {
				textRT(c, jsonStructCodec[meta.ExposureBias]("ExposureBias"), eb, true)
			}
		}
		if part == 0 {
			for _, in := range hostileInputs(r, [][]byte{[]byte("+1/3"), []byte("-12/255"), []byte("Center-weighted average"), []byte("image/x-canon-cr3"), []byte("Auto bracket"), []byte("255")}) {
				textTotal(c, itC, in)
				textTotal(c, mmT, in)
				textTotal(c, emT, in)
				textTotal(c, epT, in)
				textTotal(c, ebT, in)
				textTotal(c, jsonCodec[meta.MeteringMode]("MeteringMode"), in)
				textTotal(c, jsonCodec[meta.ExposureBias]("ExposureBias"), in)
				textTotal(c, jsonCodec[imagetype.ImageType]("ImageType"), in)
			}
		}
	})
	add("text/floats", func(c *core.Ctx, r *core.Rng, part int) {
		apT := textCodec[meta.Aperture]{typ: "Aperture/text", enc: func(v meta.Aperture) ([]byte, error) { return v.MarshalText() }, dec: func(b []byte) (meta.Aperture, error) {
			var o meta.Aperture
			err := o.UnmarshalText(b)
			return o, err
		}}
		apP := textCodec[meta.Aperture]{typ: "Aperture/ParseString", enc: func(v meta.Aperture) ([]byte, error) { return v.MarshalText() }, dec: func(b []byte) (meta.Aperture, error) {
			var o meta.Aperture
			err := o.ParseString(b)
			return o, err
		}}
		flT := textCodec[meta.FocalLength]{typ: "FocalLength/text", enc: func(v meta.FocalLength) ([]byte, error) { return v.MarshalText() }, dec: func(b []byte) (meta.FocalLength, error) {
			var o meta.FocalLength
			err := o.UnmarshalText(b)
			return o, err
		}}
		etT := textCodec[meta.ExposureTime]{typ: "ExposureTime/text", enc: func(v meta.ExposureTime) ([]byte, error) { return v.MarshalText() }, dec: func(b []byte) (meta.ExposureTime, error) {
			var o meta.ExposureTime
			err := o.UnmarshalText(b)
			return o, err
		}}
		f32grid(r, part, func(v float32, valid bool) {
			if v != v {
				return
			}
			ok := valid && v < 10000
			textRT(c, apT, meta.Aperture(v), ok)
			textRT(c, jsonCodec[meta.Aperture]("Aperture"), meta.Aperture(v), ok)
			textRT(c, flT, meta.FocalLength(v), ok)
			textRT(c, jsonCodec[meta.FocalLength]("FocalLength"), meta.FocalLength(v), ok)
			textRT(c, jsonStructCodec[meta.FocalLength]("FocalLength"), meta.FocalLength(v), ok)
			textRT(c, jsonKeyCodec[meta.FocalLength]("FocalLength"), meta.FocalLength(v), ok)
			// ExposureTime: x.xx >= 1 is representable; below 1 only 1/n
			textRT(c, etT, meta.ExposureTime(v), ok && v >= 1)
			textRT(c, jsonCodec[meta.ExposureTime]("ExposureTime"), meta.ExposureTime(v), ok && v >= 1)
		})
		for n := 1 + part; n <= 64000; n += c16Parts {
			v := meta.ExposureTime(float32(1) / float32(n))
			textRT(c, etT, v, n >= 2)
			textRT(c, jsonCodec[meta.ExposureTime]("ExposureTime"), v, n >= 2)
			textRT(c, jsonStructCodec[meta.ExposureTime]("ExposureTime"), v, n >= 2)
		}
		// 1/n for n = 2^k: exactly representable down to the smallest subnormal (n far beyond 2^64)
		for k := 1 + part%4; k <= 149; k += 4 {
			v := meta.ExposureTime(math.Ldexp(1, -k))
			textRT(c, etT, v, true)
			textRT(c, jsonCodec[meta.ExposureTime]("ExposureTime"), v, true)
		}
		textRT(c, jsonStructCodec[meta.ExposureTime]("ExposureTime"), meta.ExposureTime(0), true)
		if part == 0 {
			for _, in := range hostileInputs(r, [][]byte{[]byte("100.25mm"), []byte("2.80"), []byte("1/250"), []byte("300/100"), []byte("\"35.00mm\"")}) {
				textTotal(c, apT, in)
				textTotal(c, apP, in)
				textTotal(c, flT, in)
				textTotal(c, etT, in)
				textTotal(c, jsonCodec[meta.Aperture]("Aperture"), in)
				textTotal(c, jsonCodec[meta.FocalLength]("FocalLength"), in)
				textTotal(c, jsonCodec[meta.ExposureTime]("ExposureTime"), in)
			}
		}
	})
	add("text/uuid+hash", func(c *core.Ctx, r *core.Rng, part int) {
		uT := textCodec[meta.UUID]{typ: "UUID/text", enc: func(v meta.UUID) ([]byte, error) { return v.MarshalText() }, dec: func(b []byte) (meta.UUID, error) {
			var o meta.UUID
			err := o.UnmarshalText(b)
			return o, err
		}}
		uB := textCodec[meta.UUID]{typ: "UUID/binary", enc: func(v meta.UUID) ([]byte, error) { return v.MarshalBinary() }, dec: func(b []byte) (meta.UUID, error) {
			var o meta.UUID
			err := o.UnmarshalBinary(b)
			return o, err
		}}
		for k := 0; k < 4000; k++ {
			var u meta.UUID
			copy(u[:], r.Bytes(16))
			if k%50 == 0 {
				u = meta.UUID{}
			}
			textRT(c, uT, u, true)
			textRT(c, uB, u, true)
			textRT(c, jsonCodec[meta.UUID]("UUID"), u, true)
			textRT(c, jsonStructCodec[meta.UUID]("UUID"), u, true)
			textRT(c, jsonKeyCodec[meta.UUID]("UUID"), u, true)
			canonS := u.String()
			hashS := strings.ReplaceAll(canonS, "-", "")
			for _, f := range []string{canonS, hashS, "{" + canonS + "}", "{" + hashS + "}", "urn:uuid:" + canonS, "urn:uuid:" + hashS} {
				for _, up := range []bool{false, true} {
					s := f
					if up {
						s = strings.ToUpper(f)
						s = strings.Replace(s, "URN:UUID:", "urn:uuid:", 1)
					}
					c.Rec.Eval(1)
					got, err := uT.dec([]byte(s))
					if err != nil || got != u {
						c16viol(c, "text:uuid-form", fmt.Sprintf("UUID.UnmarshalText(%q) = %v err %v, want %v", s, got, err, u))
					}
				}
			}
			// hashes
			var b8 [8]byte
			var b32 [32]byte
			h := imagehash.PHash64(r.U64())
			h.Encode(b8[:])
			var h2 imagehash.PHash64
			h2.Decode(b8[:])
			p := imagehash.PHash256{r.U64(), r.U64(), r.U64(), r.U64()}
			p.Encode(b32[:])
			var p2 imagehash.PHash256
			p2.Decode(b32[:])
			c.Rec.Eval(2)
			if h2 != h || p2 != p {
				c16viol(c, "binary:hash", fmt.Sprintf("hash Encode/Decode round trip: %v -> %v, %v -> %v", h, h2, p, p2))
			}
			textRT(c, jsonCodec[imagehash.PHash256]("PHash256"), p, true)
			textRT(c, jsonCodec[imagehash.PHash64]("PHash64"), h, true)
		}
		if part == 0 {
			valid := [][]byte{[]byte("6ba7b810-9dad-11d1-80b4-00c04fd430c8"), []byte("{6ba7b810-9dad-11d1-80b4-00c04fd430c8}"), []byte("urn:uuid:6ba7b810-9dad-11d1-80b4-00c04fd430c8"), []byte("6ba7b8109dad11d180b400c04fd430c8"), []byte("urn:uuid:6ba7b8109dad11d180b400c04fd430c8"), []byte("{6ba7b8109dad11d180b400c04fd430c8}")}
			for _, in := range hostileInputs(r, valid) {
				textTotal(c, uT, in)
				textTotal(c, uB, in)
				textTotal(c, jsonCodec[meta.UUID]("UUID"), in)
			}
			for _, n := range []int{32, 34, 36, 38, 41, 45} {
				for k := 0; k < 300; k++ {
					b := r.Bytes(n)
					if k%2 == 0 {
						for i := range b {
							b[i] = "0123456789abcdefABCDEF-{}urn:id"[int(b[i])%31]
						}
					}
					textTotal(c, uT, b)
				}
			}
		}
	})
	return jobs
}
