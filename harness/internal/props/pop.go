package props

import (
	"fmt"
	"io"
	"os"
	"regexp"
	"strings"
	"sync"

	"verif/harness/internal/core"
	"verif/harness/internal/gen"
	"verif/harness/internal/mon"
)

// population shared by the robustness and relation engines: the repository's sample files
// (capped) plus generated well-formed files of every container.
type population struct {
	files   []gen.File
	entries []Entry
	natural [][]int // per file: indices of natural entries
}

var (
	popOnce sync.Once
	popVal  *population
	popSeed uint64
)

func getPop(seed uint64) *population {
	popOnce.Do(func() {
		p := &population{entries: Entries()}
		p.files = append(p.files, gen.LoadSamples(96*1024)...)
		p.files = append(p.files, gen.SynthFiles(seed, 4)...)
		for _, f := range p.files {
			p.natural = append(p.natural, EntriesFor(p.entries, f.Kind))
		}
		popVal, popSeed = p, seed
	})
	return popVal
}

var reDigits = regexp.MustCompile(`[0-9]+`)

// outcomeClass maps an observation to a coarse class for signatures.
func outcomeClass(o string) string {
	i := strings.Index(o, "err=")
	if i < 0 {
		return "noerr-field"
	}
	s := o[i+4:]
	if j := strings.IndexAny(s, "\n;"); j >= 0 {
		s = s[:j]
	}
	s = reDigits.ReplaceAllString(s, "#")
	if len(s) > 48 {
		s = s[:48]
	}
	return s
}

func bucket(n int64) int {
	b := 0
	for n > 0 {
		n >>= 2
		b++
	}
	return b
}

// readerKind configures rs as fault kind k at cut point cut.
func readerKind(rs *mon.RS, k int, cut int) string {
	rs.Limit = cut
	switch k % 5 {
	case 0:
		return "eof"
	case 1:
		rs.EOFWithData = true
		return "data+eof"
	case 2:
		rs.EndErr = mon.ErrInjected
		return "ioerr"
	case 3:
		rs.EndErr = io.ErrUnexpectedEOF
		return "unexpected-eof"
	default:
		rs.SeekFail = true
		return "seekfail"
	}
}

var schedules = [][]int{{1}, {2}, {3}, {7}, {1, 2, 3, 7, 8, 9, 63, 64, 65, 511, 4095, 4096, 4097}, {4096}, {4095}, {4097}, {64, 1}, {5, 1000}, {13}, {511, 1, 1, 1}}

func randSched(r *core.Rng) []int {
	if r.Chance(1, 4) {
		n := r.Range(1, 6)
		s := make([]int, n)
		for i := range s {
			s[i] = r.Pick(1, 2, 3, 7, 8, 9, 63, 64, 65, 511, 4095, 4096, 4097)
		}
		return s
	}
	return schedules[r.Intn(len(schedules))]
}

var dumpN int

// dumpInput writes the input of a call to /verif/replays/inputs when replaying, so that a
// witness can be examined outside the harness.
func dumpInput(c *core.Ctx, name string, data []byte) {
	if !c.Replay {
		return
	}
	dir := "/verif/replays/inputs"
	_ = os.MkdirAll(dir, 0o755)
	dumpN++
	name = strings.NewReplacer("/", "_", " ", "_").Replace(name)
	_ = os.WriteFile(fmt.Sprintf("%s/%s-%d-%03d-%s.bin", dir, c.Prop, c.Rec.Index, dumpN, name), data, 0o644)
}
