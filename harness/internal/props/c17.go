package props

import (
	"fmt"
	"strings"

	"github.com/evanoberholster/imagemeta/exif2/ifds"
	"github.com/evanoberholster/imagemeta/exif2/ifds/exififd"
	"github.com/evanoberholster/imagemeta/exif2/ifds/gpsifd"
	mkapple "github.com/evanoberholster/imagemeta/exif2/ifds/mknote/apple"
	mkcanon "github.com/evanoberholster/imagemeta/exif2/ifds/mknote/canon"
	mknikon "github.com/evanoberholster/imagemeta/exif2/ifds/mknote/nikon"
	mksony "github.com/evanoberholster/imagemeta/exif2/ifds/mknote/sony"
	"github.com/evanoberholster/imagemeta/exif2/tag"
	"github.com/evanoberholster/imagemeta/imagetype"
	"github.com/evanoberholster/imagemeta/isobmff"
	"github.com/evanoberholster/imagemeta/meta"
	"github.com/evanoberholster/imagemeta/meta/canon"
	"github.com/evanoberholster/imagemeta/xmp/xmpns"

	"verif/harness/internal/core"
)

// C17 — every enum and tag value formats without panicking; known values by name.
type C17 struct{}

const c17Parts = 16

func (e *C17) ID() string    { return "C17" }
func (e *C17) Level() string { return "exploration" }
func (e *C17) Rule() string {
	return "every result is also kept as returned and re-read after later calls (it must not change); exhaustive enumeration, split in parts: String() (and Extension / TagName / FromString / Identify*) on all 2^8 values of ImageType, IfdType, tag.Type, xmpns.Namespace, xmpns.Name, isobmff.Brand; all 2^16 values of tag.ID, CameraMake, Orientation, Flash, MeteringMode, ExposureMode, ExposureProgram, Compression and of the eight Canon int16 enums (negative half included); IfdType.TagName over all 256 IfdType x all 65536 ids, each compared with the name in the directory's own exported table (root, Exif, GPS, Canon/Nikon/Apple/Sony maker notes; the preview names of SubIfd0-7) and with \"0x%04x\" for every id the directory does not define; the 16-bit types are enumerated ascending and then descending, tag.ID.String must be exactly \"0x%04x\", and every (function, value) call repeated later in the same process must give the answer it gave first; CameraModel (and the Canon/Apple/Nikon/Sony model types) over [0, 0x60000) plus random uint32 (thorough). Oracle: no panic; each documented value maps to its documented name and every other value to the documented fallback, per tables written in the harness from the doc comments and the Exif/exiftool value lists they cite; FromString(String(v)) == v for documented image types (also by '.'+extension, any case) and IdentifyNamespace(String(ns)) == ns for documented XMP namespace prefixes. Distinct = distinct (type, returned string) pairs observed."
}
func (e *C17) Assumptions() []string {
	return []string{"unexported stringers (box types, JPEG markers) are reachable only through logging and are exercised by C15",
		"for map-based stringers without a documented fallback only the documented members and the absence of panics are asserted"}
}
func (e *C17) Exhaustive(tier string) bool   { return true }
func (e *C17) MinNontrivial(tier string) int { return 300 }

type c17job struct {
	name string
	run  func(c *core.Ctx, r *core.Rng, part int)
}

func (e *C17) Plan(tier string, seed uint64) int { return len(c17jobs(tier)) * c17Parts }
func (e *C17) Run(c *core.Ctx, idx int) {
	jobs := c17jobs(c.Tier)
	j := jobs[idx/c17Parts]
	c.SetPhase(j.name)
	j.run(c, c.Rng(idx), idx%c17Parts)
}

// str calls f under a guard and records (type, result).
func c17str(c *core.Ctx, typ string, v any, f func() string) (string, bool) {
	var s string
	pk, key, text := core.Guard(func() { s = f() })
	c.Rec.Eval(1)
	if pk {
		c.Rec.Violation("string:"+key, fmt.Sprintf("%s(%v) panicked: %s", typ, v, firstLineOf(text)), map[string]any{"type": typ, "value": fmt.Sprint(v), "panic": text})
		return "", false
	}
	c.Rec.SigHash(core.HashStr(typ + "|" + s))
	c17retain(c, typ, v, s)
	// the same call must give the same answer whenever it is made (a lookup that memoises in a
	// table shared between values answers according to what was asked before)
	k := core.HashStr(typ + "|" + fmt.Sprint(v))
	if h, seen := c17first[k]; seen {
		if h != core.HashStr(s) {
			c.Rec.Violation("string:impure:"+typ, fmt.Sprintf("%s(%v) = %q now, and something else when it was first called in this process", typ, v, s), map[string]any{"type": typ, "value": fmt.Sprint(v), "now": s})
		}
	} else {
		if len(c17first) > 1<<21 {
			c17first = map[uint64]uint64{}
		}
		c17first[k] = core.HashStr(s)
	}
	return s, true
}

var c17first = map[uint64]uint64{}

// c17tagName is what IfdType.TagName documents: the name the directory's own table gives the
// id, the sub-directory names of the preview offsets, and "0x%04x" for every other id.
func c17tagName(t ifds.IfdType, id tag.ID) string {
	var tab map[tag.ID]string
	switch t {
	case ifds.IFD0, ifds.SubIFD:
		tab = ifds.RootIfdTagIDMap
	case ifds.ExifIFD:
		tab = exififd.TagIDMap
	case ifds.GPSIFD:
		tab = gpsifd.TagIDMap
	case ifds.MkNoteCanonIFD:
		tab = mkcanon.TagCanonIDMap
	case ifds.MkNoteNikonIFD:
		tab = mknikon.TagNikonIDMap
	case ifds.MkNoteAppleIFD:
		tab = mkapple.TagAppleIDMap
	case ifds.MkNoteSonyIFD:
		tab = mksony.TagSonyIDMap
	case ifds.SubIfd0, ifds.SubIfd1, ifds.SubIfd2, ifds.SubIfd3, ifds.SubIfd4, ifds.SubIfd5, ifds.SubIfd6, ifds.SubIfd7:
		switch {
		case t == ifds.SubIfd2 && id == 0x0111:
			return "JpgFromRawStart"
		case t == ifds.SubIfd2 && id == 0x0117:
			return "JpgFromRawLength"
		case id == 0x0111:
			return "PreviewImageStart"
		case id == 0x0117:
			return "PreviewImageLength"
		}
		tab = ifds.RootIfdTagIDMap
	}
	if n, ok := tab[id]; ok {
		return n
	}
	return fmt.Sprintf("0x%04x", uint16(id))
}

// A returned string must stay what it was: the last 32 results are kept exactly as returned,
// next to a private copy, and re-read after later calls (a formatter that builds its result in
// a shared scratch buffer returns strings that change under the caller's feet).
type c17kept struct {
	typ, val, got, copy string
}

var (
	c17ring [32]c17kept
	c17pos  int
)

func c17retain(c *core.Ctx, typ string, v any, s string) {
	for _, k := range []int{(c17pos + 31) % 32, (c17pos + 1) % 32, (c17pos + 16) % 32} {
		if e := c17ring[k]; e.typ != "" && e.got != e.copy {
			c.Rec.Violation("string:mutated:"+e.typ, fmt.Sprintf("the string returned by %s(%s) was %q and reads %q after later calls (last call: %s(%v))", e.typ, e.val, e.copy, e.got, typ, v), map[string]any{"type": e.typ, "value": e.val})
			c17ring[k] = c17kept{}
		}
	}
	c17ring[c17pos] = c17kept{typ: typ, val: fmt.Sprint(v), got: s, copy: strings.Clone(s)}
	c17pos = (c17pos + 1) % 32
}

func c17want(c *core.Ctx, typ string, v any, got, want string) {
	if got != want {
		c.Rec.Violation("name:"+typ, fmt.Sprintf("%s(%v) = %q, documented %q", typ, v, got, want), map[string]any{"type": typ, "value": fmt.Sprint(v), "got": got, "want": want})
	}
}

var (
	imageTypeNames = []string{"application/octet-stream", "image/jpeg", "image/png", "image/gif", "image/bmp", "image/webp", "image/heif", "image/raw", "image/tiff", "image/x-adobe-dng",
		"image/x-nikon-nef", "image/x-panasonic-raw", "image/x-sony-arw", "image/x-canon-crw", "image/x-gopro-gpr", "image/x-canon-cr3", "image/x-canon-cr2", "image/vnd.adobe.photoshop",
		"application/rdf+xml", "image/avif", "image/x-portable-pixmap", "image/jp2", "image/svg+xml", "image/magick"}
	imageTypeExts = []string{"", "jpg", "png", "gif", "bmp", "webp", "heif", "RAW", "TIFF", "DNG", "NEF", "RW2", "ARW", "CRW", "GPR", "CR3", "CR2", "PSD", "XMP", "avif", "ppm", "jp2", "svg", "magick"}
	ifdTypeNames  = []string{"UnknownIfd", "Ifd", "Ifd/SubIfd", "Ifd/Exif", "Ifd/GPS", "Ifd/Iop", "Ifd/Exif/Makernote", "Ifd/DNGAdobeData", "Ifd/Exif/Makernote", "Ifd/Exif/Makernote", "Ifd/Exif/Makernote",
		"Ifd/Exif/Makernote", "Ifd/SubIfd0", "Ifd/SubIfd1", "Ifd/SubIfd2", "Ifd/SubIfd3", "Ifd/SubIfd4", "Ifd/SubIfd5", "Ifd/SubIfd6", "Ifd/SubIfd7"}
	tagTypeNames = map[int]string{0: "Unknown", 1: "BYTE", 2: "ASCII", 3: "SHORT", 4: "LONG", 5: "RATIONAL", 6: "Unknown", 7: "UNDEFINED", 8: "SSHORT", 9: "SLONG", 10: "SRATIONAL", 11: "FLOAT", 12: "DOUBLE", 0xf0: "_ASCII_NO_NUL", 0xf1: "IFD"}
	makeNames    = []string{"", "Acer", "Agfa", "Aiptek", "Apple", "Asus", "BenQ", "Canon", "Casio", "DJI", "FujiFilm", "Ge", "Genius", "Google", "GoPro", "Hasselblad", "HP", "Hitachi", "HTC", "Huawei", "Insta360",
		"Kodak", "Konica", "Kyocera", "Leica", "LG", "Mamyia", "Microsoft", "Minolta", "Motorola", "Nikon", "Nokia", "Olympus", "OnePlus", "Panasonic", "Pentax", "PhaseOne", "Polaroid", "RIM", "Ricoh", "Samsung",
		"Sanyo", "Sharp", "Sigma", "Sony", "SonyEricsson", "Toshiba", "Vivitar", "Xiamoi", "ZTE", "Hisilicon"}
	orientationNames = []string{"Unknown", "Horizontal", "Mirror horizontal", "Rotate 180", "Mirror vertical", "Mirror horizontal and rotate 270 CW", "Rotate 90 CW", "Mirror horizontal and rotate 90 CW", "Rotate 270 CW"}
	flashNames       = map[int]string{0x0: "No Flash", 0x1: "Fired", 0x5: "Fired, Return not detected", 0x7: "Fired, Return detected", 0x8: "On, Did not fire", 0x9: "On, Fired", 0xd: "On, Return not detected",
		0xf: "On, Return detected", 0x10: "Off, Did not fire", 0x14: "Off, Did not fire, Return not detected", 0x18: "Auto, Did not fire", 0x19: "Auto, Fired", 0x1d: "Auto, Fired, Return not detected",
		0x1f: "Auto, Fired, Return detected", 0x20: "No flash function", 0x30: "Off, No flash function", 0x41: "Fired, Red-eye reduction", 0x45: "Fired, Red-eye reduction, Return not detected",
		0x47: "Fired, Red-eye reduction, Return detected", 0x49: "On, Red-eye reduction", 0x4d: "On, Red-eye reduction, Return not detected", 0x4f: "On, Red-eye reduction, Return detected",
		0x50: "Off, Red-eye reduction", 0x58: "Auto, Did not fire, Red-eye reduction", 0x59: "Auto, Fired, Red-eye reduction", 0x5d: "Auto, Fired, Red-eye reduction, Return not detected",
		0x5f: "Auto, Fired, Red-eye reduction, Return detected"}
	meteringNames   = map[int]string{0: "Unknown", 1: "Average", 2: "Center-weighted average", 3: "Spot", 4: "Multi-spot", 5: "Multi-segment", 6: "Partial", 255: "Other"}
	expModeNames    = []string{"Auto", "Manual", "Auto bracket"}
	expProgramNames = []string{"Not Defined", "Manual", "Program AE", "Aperture-priority AE", "Shutter speed priority AE", "Creative (Slow speed)", "Action (High speed)", "Portrait", "Landscape", "Bulb"}
	compressionSome = map[int]string{1: "Uncompressed", 2: "CCITT 1D", 3: "T4/Group 3 Fax", 4: "T6/Group 4 Fax", 5: "LZW", 6: "JPEG (old-style)", 7: "JPEG", 8: "Adobe Deflate", 9: "JBIG B&W", 10: "JBIG Color",
		99: "JPEG", 262: "Kodak 262", 32766: "Next", 32767: "Sony ARW Compressed", 32769: "Packed RAW", 32770: "Samsung SRW Compressed", 32771: "CCIRLEW", 32773: "PackBits", 32809: "Thunderscan",
		32946: "Deflate", 34712: "JPEG 2000", 34713: "Nikon NEF Compressed", 34892: "Lossy JPEG", 34925: "LZMA2", 34933: "PNG", 34934: "JPEG XR", 65000: "Kodak DCR Compressed",
		// the rest of the ExifTool list the doc comment cites, so that the table is complete and every other value must give the fallback
		32772: "Samsung SRW Compressed 2", 32867: "Kodak KDC Compressed", 32895: "IT8CTPAD", 32896: "IT8LW", 32897: "IT8MP", 32898: "IT8BL", 32908: "PixarFilm", 32909: "PixarLog", 32947: "DCS",
		33003: "Aperio JPEG 2000 YCbCr", 33005: "Aperio JPEG 2000 RGB", 34661: "JBIG", 34676: "SGILog", 34677: "SGILog24", 34715: "JBIG2 TIFF FX",
		34718: "Microsoft Document Imaging (MDI) Binary Level Codec", 34719: "Microsoft Document Imaging (MDI) Progressive Transform Codec", 34720: "Microsoft Document Imaging (MDI) Vector",
		34887: "ESRI Lerc", 34926: "Zstd", 34927: "WebP", 65535: "Pentax PEF Compressed"}
	canonDriveNames = map[int]string{0: "Single", 1: "Continuous", 2: "Movie", 3: "Continuous, Speed Priority", 4: "Continuous, Low", 5: "Continuous, High", 6: "Silent Single", 9: "Single, Silent", 10: "Continuous, Silent"}
	canonFocusNames = map[int]string{0: "One-shot AF", 1: "AI Servo AF", 2: "AI Focus AF", 3: "Manual Focus", 4: "Single", 5: "Continuous", 6: "Manual Focus", 16: "Pan Focus", 256: "AF + MF", 512: "Movie Snap Focus", 519: "Movie Servo AF"}
	canonMeterNames = map[int]string{0: "Default", 1: "Spot", 2: "Average", 3: "Evaluative", 4: "Partial", 5: "Center-weighted average"}
	canonRangeNames = map[int]string{0: "Manual", 1: "Auto", 2: "Not Known", 3: "Macro", 4: "Very Close", 5: "Close", 6: "Middle Range", 7: "Far Range", 8: "Pan Focus", 9: "Super Macro", 10: "Infinity"}
	canonExpNames   = map[int]string{0: "Easy", 1: "Program AE", 2: "Shutter speed priority AE", 3: "Aperture-priority AE", 4: "Manual", 5: "Depth-of-field AE", 6: "M-Dep", 7: "Bulb", 8: "Flexible-priority AE"}
	canonBrktNames  = map[int]string{0: "Off", 1: "AEB", 2: "FEB", 3: "ISO", 4: "WB"}
	canonAENames    = map[int]string{0: "Normal AE", 1: "Exposure Compensation", 2: "AE Lock", 3: "AE Lock + Exposure Compensation", 4: "No AE"}
	canonAFNames    = map[int]string{0: "Off (Manual Focus)", 1: "AF Point Expansion (surround)", 2: "Single-point AF", 4: "Auto", 5: "Face Detect AF", 6: "Face + Tracking", 7: "Zone AF", 8: "AF Point Expansion (4 point)",
		9: "Spot AF", 10: "AF Point Expansion (8 point)", 11: "Flexizone Multi (49 point)", 12: "Flexizone Multi (9 point)", 13: "Flexizone Single", 14: "Large Zone AF"}
	nsNames   = []string{"Unknown", "aux", "crs", "darktable", "dc", "exif", "exifEX", "lr", "photoshop", "pmi", "rdf", "stDim", "stEvt", "stRef", "tiff", "x", "xap", "xapMM", "xml", "xmlns", "xmp", "xmpDM", "xmpMM"}
	knownTags = []struct {
		ifd  ifds.IfdType
		id   uint16
		name string
	}{{ifds.IFD0, 0x010f, "Make"}, {ifds.IFD0, 0x0110, "Model"}, {ifds.IFD0, 0x0112, "Orientation"}, {ifds.IFD0, 0x8769, "ExifTag"}, {ifds.IFD0, 0x8825, "GPSTag"}, {ifds.IFD0, 0x0132, "DateTime"},
		{ifds.ExifIFD, 0x829a, "ExposureTime"}, {ifds.ExifIFD, 0x829d, "FNumber"}, {ifds.ExifIFD, 0x9003, "DateTimeOriginal"}, {ifds.ExifIFD, 0x927c, "MakerNote"}, {ifds.ExifIFD, 0xa434, "LensModel"},
		{ifds.GPSIFD, 0x0002, "GPSLatitude"}, {ifds.GPSIFD, 0x0004, "GPSLongitude"}, {ifds.GPSIFD, 0x001d, "GPSDateStamp"}, {ifds.SubIfd0, 0x0111, "PreviewImageStart"}, {ifds.SubIfd2, 0x0117, "JpgFromRawLength"}}
)

func c17jobs(tier string) []c17job {
	var jobs []c17job
	add := func(name string, f func(c *core.Ctx, r *core.Rng, part int)) { jobs = append(jobs, c17job{name, f}) }
	add("8-bit types", func(c *core.Ctx, r *core.Rng, part int) {
		for i := part; i < 256; i += c17Parts {
			it := imagetype.ImageType(i)
			if s, ok := c17str(c, "ImageType.String", i, it.String); ok {
				want := imageTypeNames[0]
				if i < len(imageTypeNames) {
					want = imageTypeNames[i]
				}
				c17want(c, "ImageType.String", i, s, want)
				if i < len(imageTypeNames) {
					if got := imagetype.FromString(s); got != it {
						c.Rec.Violation("fromstring:ImageType", fmt.Sprintf("FromString(%q) = %v, want %v", s, got, it), nil)
					}
				}
			}
			if s, ok := c17str(c, "ImageType.Extension", i, it.Extension); ok {
				want := ""
				if i < len(imageTypeExts) {
					want = imageTypeExts[i]
				}
				c17want(c, "ImageType.Extension", i, s, want)
				if i > 0 && i < len(imageTypeExts) {
					for _, form := range []string{"." + strings.ToLower(s), "." + strings.ToUpper(s)} {
						if got := imagetype.FromString(form); got != it {
							c.Rec.Violation("fromstring:extension", fmt.Sprintf("FromString(%q) = %v, want %v", form, got, it), nil)
						}
					}
				}
			}
			_, _ = c17str(c, "ImageType.IsUnknown", i, func() string { return fmt.Sprint(it.IsUnknown()) })
			ft := ifds.IfdType(i)
			if s, ok := c17str(c, "IfdType.String", i, ft.String); ok {
				want := ifdTypeNames[0]
				if i < len(ifdTypeNames) {
					want = ifdTypeNames[i]
				}
				c17want(c, "IfdType.String", i, s, want)
			}
			_, _ = c17str(c, "IfdType.IsValid", i, func() string { return fmt.Sprint(ft.IsValid()) })
			_, _ = c17str(c, "Ifd.String", i, func() string { return ifds.NewIFD(1, ft, int8(i), uint32(i), 0).String() })
			tt := tag.Type(i)
			if s, ok := c17str(c, "tag.Type.String", i, tt.String); ok {
				want, known := tagTypeNames[i]
				if !known {
					want = "Unknown"
				}
				c17want(c, "tag.Type.String", i, s, want)
			}
			_, _ = c17str(c, "tag.Type.Size", i, func() string { return fmt.Sprint(tt.Size(), tt.IsValid()) })
			ns := xmpns.Namespace(i)
			if s, ok := c17str(c, "xmpns.Namespace.String", i, ns.String); ok && i < len(nsNames) {
				c17want(c, "xmpns.Namespace.String", i, s, nsNames[i])
				if got := xmpns.IdentifyNamespace([]byte(s)); got != ns {
					c.Rec.Violation("fromstring:Namespace", fmt.Sprintf("IdentifyNamespace(%q) = %v, want %v", s, got, ns), nil)
				}
			}
			nm := xmpns.Name(i)
			if s, ok := c17str(c, "xmpns.Name.String", i, nm.String); ok && s != "" && i > 0 {
				if got := xmpns.IdentifyName([]byte(s)); got != nm && s != "Unknown" {
					c.Rec.Violation("fromstring:Name", fmt.Sprintf("IdentifyName(%q) = %v, want %v", s, got, nm), nil)
				}
			}
			for j := 0; j < 256; j += 17 {
				_, _ = c17str(c, "xmpns.Property.String", fmt.Sprint(i, "/", j), xmpns.NewProperty(ns, xmpns.Name(j)).String)
			}
			_, _ = c17str(c, "isobmff.Brand.String", i, isobmff.Brand(i).String)
		}
	})
	add("16-bit types", func(c *core.Ctx, r *core.Rng, part int) {
		named := func(typ string, i int, f func() string, table map[int]string, fallback *string) {
			s, ok := c17str(c, typ, i, f)
			if !ok {
				return
			}
			if want, known := table[i]; known {
				c17want(c, typ, i, s, want)
			} else if fallback != nil {
				c17want(c, typ, i, s, *fallback)
			}
		}
		list := func(l []string) map[int]string {
			m := map[int]string{}
			for i, s := range l {
				m[i] = s
			}
			return m
		}
		fbUnknown, fbNoFlash, fbNotDef, fbEmpty, fbUnkown := "Unknown", "No Flash", "Not Defined", "", "Unkown" // (sic: the fallback Compression.String documents)
		mkT, orT, emT, epT := list(makeNames), list(orientationNames), list(expModeNames), list(expProgramNames)
		// ascending, then descending: the second pass meets whatever state the first left behind
		var order []int
		for i := part; i < 65536; i += c17Parts {
			order = append(order, i)
		}
		for k := len(order) - 1; k >= 0; k-- {
			order = append(order, order[k])
		}
		for _, i := range order {
			u := uint16(i)
			s16 := int(int16(u))
			if s, ok := c17str(c, "tag.ID.String", i, tag.ID(u).String); ok {
				c17want(c, "tag.ID.String", i, s, fmt.Sprintf("0x%04x", u))
			}
			named("CameraMake.String", i, ifds.CameraMake(u).String, mkT, &fbEmpty)
			named("Orientation.String", i, meta.Orientation(u).String, orT, &fbUnknown)
			named("Flash.String", i, meta.Flash(u).String, flashNames, &fbNoFlash)
			named("MeteringMode.String", i, meta.MeteringMode(u).String, meteringNames, &fbUnknown)
			named("ExposureMode.String", i, meta.ExposureMode(u).String, emT, &fbUnknown)
			named("ExposureProgram.String", i, meta.ExposureProgram(u).String, epT, &fbNotDef)
			named("Compression.String", i, meta.Compression(u).String, compressionSome, &fbUnkown)
			_, _ = c17str(c, "Flash.bits", i, func() string {
				f := meta.Flash(u)
				return fmt.Sprint(f.Fired(), f.ReturnStatus(), f.FlashFunction(), f.Mode(), f.Redeye())
			})
			_, _ = c17str(c, "ExposureBias.String", i, meta.ExposureBias(int16(u)).String)
			named("canon.ContinuousDrive.String", s16, canon.ContinuousDrive(s16).String, canonDriveNames, &fbUnknown)
			named("canon.FocusMode.String", s16, canon.FocusMode(s16).String, canonFocusNames, &fbUnknown)
			named("canon.MeteringMode.String", s16, canon.MeteringMode(s16).String, canonMeterNames, nil)
			named("canon.FocusRange.String", s16, canon.FocusRange(s16).String, canonRangeNames, nil)
			named("canon.ExposureMode.String", s16, canon.ExposureMode(s16).String, canonExpNames, nil)
			named("canon.BracketMode.String", s16, canon.BracketMode(s16).String, canonBrktNames, nil)
			named("canon.AESetting.String", s16, canon.AESetting(s16).String, canonAENames, nil)
			named("canon.AFAreaMode.String", s16, canon.AFAreaMode(s16).String, canonAFNames, nil)
			_, _ = c17str(c, "canon.Ev", s16, func() string { return fmt.Sprint(canon.Ev(int16(s16)), canon.TempConv(u)) })
		}
	})
	add("TagName", func(c *core.Ctx, r *core.Rng, part int) {
		for t := 0; t < 256; t++ {
			ft := ifds.IfdType(t)
			for i := part; i < 65536; i += c17Parts {
				id := tag.ID(i)
				var s string
				pk, key, text := core.Guard(func() { s = ft.TagName(id) })
				if pk {
					c.Rec.Violation("string:"+key, fmt.Sprintf("IfdType(%d).TagName(0x%04x) panicked: %s", t, i, firstLineOf(text)), nil)
					continue
				}
				if s == "" {
					c.Rec.Violation("name:TagName-empty", fmt.Sprintf("IfdType(%d).TagName(0x%04x) returned an empty string", t, i), nil)
				} else if want := c17tagName(ft, id); s != want {
					c.Rec.Violation("name:IfdType.TagName", fmt.Sprintf("IfdType(%d).TagName(0x%04x) = %q, the directory's table and the documented fallback give %q", t, i, s, want), map[string]any{"ifd": t, "id": i, "got": s, "want": want})
				}
				if t < 20 && i%64 == part {
					c.Rec.SigHash(core.HashStr("TagName|" + s))
				}
			}
			c.Rec.Eval(65536 / c17Parts)
		}
		// once more in the opposite order, after everything above has been asked
		for t := 23; t >= 0; t-- {
			ft := ifds.IfdType(t)
			for i := 65536 - c17Parts + part; i >= 0; i -= c17Parts {
				var s string
				if pk, _, _ := core.Guard(func() { s = ft.TagName(tag.ID(i)) }); !pk {
					if want := c17tagName(ft, tag.ID(i)); s != want {
						c.Rec.Violation("name:IfdType.TagName", fmt.Sprintf("second pass: IfdType(%d).TagName(0x%04x) = %q, the directory's table and the documented fallback give %q", t, i, s, want), map[string]any{"ifd": t, "id": i, "got": s, "want": want})
					}
				}
			}
			c.Rec.Eval(65536 / c17Parts)
		}
		if part == 0 {
			for _, k := range knownTags {
				c17want(c, "IfdType.TagName", fmt.Sprintf("%v/0x%04x", k.ifd, k.id), k.ifd.TagName(tag.ID(k.id)), k.name)
			}
		}
	})
	add("CameraModel", func(c *core.Ctx, r *core.Rng, part int) {
		n := 0x60000
		for i := part; i < n; i += c17Parts {
			v := uint32(i)
			_, _ = c17str(c, "CameraModel.String", i, ifds.CameraModel(v).String)
			_, _ = c17str(c, "canon.CameraModel.String", i, mkcanon.CameraModel(v).String)
			_, _ = c17str(c, "apple.CameraModel.String", i, mkapple.CameraModel(v).String)
			_, _ = c17str(c, "nikon.CameraModel.String", i, mknikon.CameraModel(v).String)
			_, _ = c17str(c, "sony.CameraModel.String", i, mksony.CameraModel(v).String)
		}
		extra := 2000
		if tier == "thorough" {
			extra = 2000000
		}
		for k := 0; k < extra; k++ {
			v := r.U32()
			_, _ = c17str(c, "CameraModel.String", v, ifds.CameraModel(v).String)
			_, _ = c17str(c, "canon.CameraModel.String", v, mkcanon.CameraModel(v).String)
		}
		// the PowerShot constants are named after the camera: a constant formats as its own
		// camera's name or, like most of them, as "" - never as another camera's
		{ // in every part, i.e. in every worker process: a table built at start-up is the same in each
			for _, k := range []struct {
				m    mkcanon.CameraModel
				name string
			}{{mkcanon.PowerShotS410, "Canon PowerShot S410"}, {mkcanon.EOS350D, "Canon EOS 350D DIGITAL"}, {mkcanon.EOS400D, "Canon EOS 400D DIGITAL"},
				{mkcanon.EOS6D, "Canon EOS 6D"}, {mkcanon.EOSR5, "Canon EOS R5"}, {mkcanon.EOSR6, "Canon EOS R6"}, {mkcanon.EOS80D, "Canon EOS 80D"},
				{mkcanon.EOS7D, "Canon EOS 7D"}, {mkcanon.EOS40D, "Canon EOS 40D"}, {mkcanon.EOS450D, "Canon EOS 450D"}, {mkcanon.EOS50D, "Canon EOS 50D"},
				{mkcanon.EOS20D, "Canon EOS 20D"}, {mkcanon.EOS1000D, "Canon EOS 1000D"}, {mkcanon.EOSR, "Canon EOS R"}, {mkcanon.EOSRP, "Canon EOS RP"},
				{mkcanon.PowerShotA200, "Canon PowerShot A200"}, {mkcanon.PowerShotA510, "Canon PowerShot A510"}, {mkcanon.PowerShotA540, "Canon PowerShot A540"},
				{mkcanon.PowerShotA450, "Canon PowerShot A450"}, {mkcanon.PowerShotA590IS, "Canon PowerShot A590 IS"}, {mkcanon.PowerShotA75, "Canon PowerShot A75"},
				{mkcanon.PowerShotA80, "Canon PowerShot A80"}, {mkcanon.PowerShotA85, "Canon PowerShot A85"}, {mkcanon.PowerShotG2, "Canon PowerShot G2"},
				{mkcanon.PowerShotG9, "Canon PowerShot G9"}, {mkcanon.PowerShotS2IS, "Canon PowerShot S2 IS"}, {mkcanon.PowerShotS5IS, "Canon PowerShot S5 IS"},
				{mkcanon.PowerShotSD1000, "Canon PowerShot SD1000"}, {mkcanon.PowerShotSD600, "Canon PowerShot SD600"}, {mkcanon.PowerShotSD950IS, "Canon PowerShot SD950 IS"},
				{mkcanon.PowerShotSX30IS, "Canon PowerShot SX30 IS"}, {mkcanon.PowerShotSX50HS, "Canon PowerShot SX50 HS"}, {mkcanon.PowerShotSX60HS, "Canon PowerShot SX60 HS"}} {
				if got := k.m.String(); got != "" && got != k.name {
					c.Rec.Violation("name:canon-model", fmt.Sprintf("the constant named after the %s formats as %q", k.name, got), nil)
				}
				if m, ok := mkcanon.CameraModelFromString(k.name); ok && m != k.m {
					c.Rec.Violation("fromstring:canon-model", fmt.Sprintf("CameraModelFromString(%q) = %d, the constant named after that camera is %d", k.name, m, k.m), nil)
				}
			}
		}
		// documented model names parse back to the value they name
		if part == 0 {
			for _, nm := range []string{"Canon EOS R5", "Canon EOS R6", "Canon EOS 6D", "Canon EOS 7D", "Canon EOS 80D"} {
				m, ok := mkcanon.CameraModelFromString(nm)
				if !ok || m.String() != nm {
					c.Rec.Violation("fromstring:canon-model", fmt.Sprintf("canon.CameraModelFromString(%q) = %v %v (String %q)", nm, m, ok, m.String()), nil)
				}
				if got := ifds.CameraModel(m).String(); got != nm {
					c.Rec.Violation("name:CameraModel", fmt.Sprintf("CameraModel(%d).String() = %q, want %q", m, got, nm), nil)
				}
			}
			for _, mk := range makeNames[1:] {
				got, ok := ifds.CameraMakeFromString(mk)
				if mk == "Huawei" {
					continue // documented spelling in files is HUAWEI
				}
				if !ok || got.String() != mk {
					c.Rec.Violation("fromstring:make", fmt.Sprintf("CameraMakeFromString(%q) = %v %v", mk, got, ok), nil)
				}
			}
		}
	})
	return jobs
}
