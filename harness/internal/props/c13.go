package props

import (
	"bufio"
	"fmt"
	"strings"

	"github.com/evanoberholster/imagemeta/xmp"

	"verif/harness/internal/core"
	"verif/harness/internal/gen"
	"verif/harness/internal/mon"
	"verif/harness/internal/obs"
)

// C13 — XMP properties are extracted exactly, attribute or element form alike.
type C13 struct{}

func (e *C13) ID() string    { return "C13" }
func (e *C13) Level() string { return "exploration" }
func (e *C13) Rule() string {
	return "each case draws a record of supported simple and array properties (tiff, exif, aux, xmp/xap, xmpMM/xapMM, crs, dc; values without XML-special characters or outer blanks, 1..1024 bytes) and serialises it with the harness's own writer three times: per-property random form, all-attributes, all-elements; with either quote character, random property order, white space between tokens drawn from {space, LF, CR LF, TAB, long runs}, 0-8 unknown properties (unknown namespaces, unknown names in known namespaces, nested bags, empty elements) interleaved, one or two rdf:Description elements, self-closing descriptions, xml:lang on alt items, and leading junk (xpacket PI, BOM, random bytes, near-miss root tags). A second section sweeps one property's value length over 1..1100 bytes (every token end visits every position relative to the 128/256/512/768/1280/1538 look-ahead steps) in both forms, and over-long tokens (> 1538 bytes). Oracle: parse result equals the record (exact strings/integers, rationals as float32 +-1ulp, dates as instant+offset, UUID bytes, array items in document order), error nil, attribute-form result == element-form result; for an over-long token an error or the correct value are both accepted, a wrong value with nil error is not. Non-trivial: >=3 supported properties and >=1 interleaved unknown; distinct = (property-set hash, style class, form)."
}
func (e *C13) Assumptions() []string {
	return []string{"entity decoding, blank trimming, white space around '=' and exif:GPS* coordinate types are not part of the statement and are not generated",
		"dates are generated in the three forms the package documents (no zone, Z/offset, two-digit fraction)", "UUID values use one prefix (xmp.did:, xmp.iid:, uuid:) or none"}
}
func (e *C13) Plan(tier string, seed uint64) int {
	if tier == "thorough" {
		return 1000000 + 2*1100
	}
	return 30000 + 2*1100
}
func (e *C13) MinNontrivial(tier string) int { return 200 }

func parseXMPObs(c *core.Ctx, b []byte) (obs.Map, string, bool) {
	var x xmp.XMP
	var err error
	pk, key, text := core.Guard(func() { x, err = xmp.ParseXmp(mon.NewRS(b)) })
	c.Rec.Eval(1)
	if pk {
		c.Rec.Violation("xmp:"+key, "ParseXmp panicked on a well-formed packet: "+firstLineOf(text), map[string]any{"panic": text})
		return nil, "", false
	}
	return obs.XMP(x), obs.Err(err), true
}

var zeroXMP = obs.XMP(xmp.XMP{})

func compareXMP(exp *gen.Expect, got obs.Map) []string {
	var bad []string
	for k, g := range got {
		if strings.HasSuffix(k, ".zone") || k == "XMP.DC.TitleLang" {
			continue // zone names and the derived xml:lang list are not property values
		}
		if w, ok := exp.F32[k]; ok {
			if !gen.F32Close(g, w) {
				bad = append(bad, fmt.Sprintf("%s: got %s want float32(%v)", k, g, w))
			}
			continue
		}
		wants, ok := exp.Exact[k]
		if !ok {
			wants = []string{zeroXMP[k]}
		}
		match := false
		for _, w := range wants {
			if w == g {
				match = true
			}
		}
		if !match {
			bad = append(bad, fmt.Sprintf("%s: got %q want %q", k, clipStr(g, 90), clipStr(wants[0], 90)))
		}
	}
	return bad
}

func (e *C13) Run(c *core.Ctx, idx int) {
	r := c.Rng(idx)
	nSweep := 2 * 1100
	total := e.Plan(c.Tier, c.Seed)
	if idx >= total-nSweep {
		e.sweep(c, idx-(total-nSweep))
		return
	}
	exotic := idx%2 == 0
	rec := gen.GenXMPRec(r, r.Pick(10, 30, 60, 90), r.Pick(60, 300, 1024))
	st := gen.RandXMPStyle(r, exotic)
	ss := r.U64()
	var results [3]obs.Map
	for form := 0; form < 3; form++ {
		b := rec.Serialise(core.NewRng(ss), st, form)
		dumpInput(c, fmt.Sprintf("xmp-form%d", form), b)
		c.SetPhase(fmt.Sprintf("form=%d style=%+v", form, st))
		got, errS, ok := parseXMPObs(c, b)
		if !ok {
			continue
		}
		results[form] = got
		var bad []string
		if errS != "nil" {
			bad = append(bad, "error: "+errS)
		}
		bad = append(bad, compareXMP(rec.Exp, got)...)
		if len(bad) > 0 {
			c.Rec.Violation("xmp:value:"+firstField(bad[0]), fmt.Sprintf("ParseXmp of a well-formed packet (form %d, %d props, ws=%q endws=%q quote=%c unknown=%d split=%v): %s", form, len(rec.Props), st.WS, st.EndTagWS, st.Quote, st.Unknown, st.SplitDesc, joinMax(bad, 4)),
				map[string]any{"form": form, "style": fmt.Sprintf("%+v", st), "mismatches": bad, "packet": clipStr(string(b), 3000)})
		}
		if len(rec.Exp.Names) >= 3 && st.Unknown > 0 {
			c.Rec.Sig(fmt.Sprintf("%s|ws%d|q%c|u%d|s%v|f%d", fieldSig(rec.Exp.Names), len(st.WS), st.Quote, st.Unknown, st.SplitDesc, form))
		}
	}
	if results[1] != nil && results[2] != nil {
		if ds := obs.Diff(results[1], results[2], 4); len(ds) > 0 {
			c.Rec.Violation("xmp:attr-vs-elem:"+firstField(ds[0]), "attribute-form and element-form serialisations of the same record parse differently: "+joinMax(ds, 4), map[string]any{"differences(attr vs elem)": ds})
		}
	}
	if idx%8 == 3 {
		e.sequential(c, r, rec, st)
	}
	if c.Rec.WantSample() && idx%307 == 9 {
		c.Rec.Sample(map[string]any{"props": len(rec.Props), "style": fmt.Sprintf("%+v", st), "fields": rec.Exp.Names})
	}
}

// sequential: two packets back to back in one stream, read through a caller-owned
// *bufio.Reader that is large enough for the parser to use it directly, with an unrelated
// ParseXmp call on another reader in between. Each packet must parse to its own record.
func (e *C13) sequential(c *core.Ctx, r *core.Rng, rec1 *gen.XMPRec, st gen.XMPStyle) {
	rec2 := gen.GenXMPRec(r, r.Pick(30, 60), 100)
	rec3 := gen.GenXMPRec(r, 30, 60)
	st.Leading, st.ManyArrays = "", 0
	b1, b2, b3 := rec1.Serialise(r, st, 0), rec2.Serialise(r, st, 0), rec3.Serialise(r, st, 0)
	stream := append(append(append([]byte(nil), b1...), []byte("\n\n")...), b2...)
	br := bufio.NewReaderSize(mon.NewRS(stream), r.Pick(1538, 2048, 4096, 8192))
	var x1, x2 xmp.XMP
	var e1, e2 error
	pk, key, text := core.Guard(func() {
		x1, e1 = xmp.ParseXmp(br)
		_, _ = xmp.ParseXmp(mon.NewRS(b3)) // someone else parses something else meanwhile
		_, _ = xmp.ParseXmp(mon.OnlyReader{R: mon.NewRS(b3)})
		x2, e2 = xmp.ParseXmp(br)
	})
	c.Rec.Eval(4)
	if pk {
		c.Rec.Violation("xmp:sequential:"+key, "ParseXmp panicked on two packets read through one bufio.Reader: "+firstLineOf(text), map[string]any{"panic": text})
		return
	}
	for i, p := range []struct {
		rec *gen.XMPRec
		x   xmp.XMP
		err error
	}{{rec1, x1, e1}, {rec2, x2, e2}} {
		var bad []string
		if p.err != nil {
			bad = append(bad, "error: "+p.err.Error())
		}
		bad = append(bad, compareXMP(p.rec.Exp, obs.XMP(p.x))...)
		if len(bad) > 0 {
			c.Rec.Violation("xmp:sequential:"+firstField(bad[0]), fmt.Sprintf("packet %d of two read through one caller-owned bufio.Reader (another ParseXmp call in between) does not parse to its record: %s", i+1, joinMax(bad, 4)), map[string]any{"packet": i + 1, "mismatches": bad})
		}
	}
	c.Rec.Count("sequential_packet_pairs", 1)
}

// sweep: one text property, value length 1..1100, attribute form (k even) or element form (k odd);
// plus over-long tokens.
func (e *C13) sweep(c *core.Ctx, k int) {
	n := k/2 + 1
	elem := k%2 == 1
	r := c.Rng(100000 + k)
	props := []struct{ ns, name, key string }{{"tiff", "Make", "XMP.Tiff.Make"}, {"aux", "Lens", "XMP.Aux.Lens"}, {"xmp", "CreatorTool", "XMP.Basic.CreatorTool"}, {"crs", "RawFileName", "XMP.CRS.RawFileName"}}
	pr := props[r.Intn(len(props))]
	lead := r.Range(0, 40) // shifts the token relative to the window
	mk := func(n int) ([]byte, string) {
		val := gen.XText(r, n)
		rec := &gen.XMPRec{Props: []gen.XProp{{NS: pr.ns, Name: pr.name, Kind: "simple", Values: []string{val}, Elem: elem}}}
		st := gen.XMPStyle{Quote: '"', WS: " ", Indent: "", NL: "\n", Leading: strings.Repeat(" ", lead)}
		return rec.Serialise(r, st, 0), val
	}
	b, val := mk(n)
	dumpInput(c, "xmp-sweep", b)
	got, errS, ok := parseXMPObs(c, b)
	if ok {
		if errS != "nil" || got[pr.key] != "s:"+val {
			c.Rec.Violation(fmt.Sprintf("xmp:length:%s", map[bool]string{false: "attr", true: "elem"}[elem]), fmt.Sprintf("%s:%s with a %d-byte value in %s form (lead %d): err=%s value ok=%v", pr.ns, pr.name, n, map[bool]string{false: "attribute", true: "element"}[elem], lead, errS, got[pr.key] == "s:"+val),
				map[string]any{"value_len": n, "element_form": elem, "lead": lead, "error": errS})
		}
		c.Rec.SigHash(core.HashStr(fmt.Sprintf("sweep|%d|%v", n, elem)))
	}
	// over-long token: an error or the correct value, never a wrong value with nil error
	if n%50 == 0 {
		big := 1400 + r.Range(0, 3000)
		b, val := mk(big)
		got, errS, ok := parseXMPObs(c, b)
		if ok && errS == "nil" && got[pr.key] != "s:"+val {
			c.Rec.Violation("xmp:overlong", fmt.Sprintf("%s:%s with a %d-byte value: nil error but wrong value (%d bytes reported)", pr.ns, pr.name, big, len(got[pr.key])-2), map[string]any{"value_len": big, "element_form": elem})
		}
	}
}
