package props

import (
	"fmt"
	"runtime/debug"
	"sort"
	"strings"
	"sync"
	"time"

	"verif/harness/internal/core"
	"verif/harness/internal/gen"
	"verif/harness/internal/mon"
)

// C01 — no input bytes or I/O failure point makes a decoder panic or crash.
type C01 struct {
	once sync.Once
	plan *c01Plan
}

type c01Pair struct {
	file, entry int
	cuts        []int
}

type c01Plan struct {
	pop        *population
	pairs      []c01Pair
	chunkStart []int // prefix sums of chunks per pair
	nTrunc     int
	nMut       int
	nRand      int
	nShape     int
}

const c01Chunk = 24

func cutPoints(f gen.File, dense, sampled int, r *core.Rng) []int {
	seen := map[int]bool{}
	var out []int
	add := func(k int) {
		if k >= 0 && k <= len(f.Data) && !seen[k] {
			seen[k] = true
			out = append(out, k)
		}
	}
	for k := 0; k <= dense && k <= len(f.Data); k++ {
		add(k)
	}
	bs := gen.Boundaries(f.Fields)
	if len(bs) > 600 {
		bs = bs[:600]
	}
	for _, b := range bs {
		add(b - 1)
		add(b)
		add(b + 1)
	}
	for i := 0; i < sampled; i++ {
		add(r.Intn(len(f.Data) + 1))
	}
	add(len(f.Data))
	add(len(f.Data) - 1)
	sort.Ints(out)
	return out
}

func (e *C01) getPlan(tier string, seed uint64) *c01Plan {
	e.once.Do(func() {
		p := &c01Plan{pop: getPop(seed)}
		dense, sampled := 300, 24
		p.nMut, p.nRand, p.nShape = 24000, 3000, 12000
		if tier == "thorough" {
			dense, sampled = 8192, 256
			p.nMut, p.nRand, p.nShape = 400000, 40000, 400000
		}
		for fi, f := range p.pop.files {
			r := core.NewRng(seed, 0xC01, uint64(fi))
			cuts := cutPoints(f, dense, sampled, r)
			for _, ei := range p.pop.natural[fi] {
				c := cuts
				if strings.HasPrefix(p.pop.entries[ei].Name, "imagetype.") {
					// sniffers read a 24-byte prefix only
					c = nil
					for _, k := range cuts {
						if k <= 40 {
							c = append(c, k)
						}
					}
				}
				p.pairs = append(p.pairs, c01Pair{file: fi, entry: ei, cuts: c})
			}
		}
		n := 0
		for _, pr := range p.pairs {
			p.chunkStart = append(p.chunkStart, n)
			n += (len(pr.cuts) + c01Chunk - 1) / c01Chunk
		}
		p.nTrunc = n
		e.plan = p
	})
	return e.plan
}

func (e *C01) ID() string    { return "C01" }
func (e *C01) Level() string { return "fault_enumeration" }
func (e *C01) Rule() string {
	return "cases: (a) for every corpus/generated file x natural entry point: every cut point k (dense prefix, every walker-found structure boundary +-1, seeded sample, len-1, len) x 5 terminal reader behaviours (EOF, data+EOF, injected error, ErrUnexpectedEOF, failing Seek); (b) structure-aware malformations (1-3 operators at walker-found size/count/offset/type fields, flips, deletions, duplications, splices; a quarter rewrite typed Exif *values* of a structurally intact file instead: rationals with zero / all-ones / sign-bit numerators and denominators, date texts with two-character groups no calendar has, texts without terminator, integers at the extremes of their width) run through the file's natural entries plus two random entries and random reader kinds / chunk schedules; (c) random byte strings of length 0..4096 through every entry; (d) grammar-based shapes: tightly packed trees of the box types the ISOBMFF reader dispatches on (meta/hdlr/pitm/iinf+infe/iloc/iref/iprp, moov/Canon uuid/CNCV/CTBO/CMT1-4/THMB, PRVW) and small TIFF directories over the tags the Exif reader interprets, with boundary-biased sizes, counts, versions, field widths, types and offsets in several cooperating fields at once, through the family's natural entries with clean and faulting readers; every 40th shape is one tiny unit (a minimal box of a known type in a looping context, APP1 segment, PNG chunk, IFD entry, one-entry IFD chain, XMP token) tiled to 20..300 KB, another 40th is 1..2 MB of one loop-targeted pattern (SOI runs, fill bytes, zero-size boxes, partial signatures), run with the goroutine stack limit lowered from 1 GB to 16 MB. A call is non-trivial when it consumed more than 24 bytes or returned a non-sniffing error; distinct = distinct (entry, outcome class with digits stripped, log4 bucket of bytes delivered)."
}
func (e *C01) Assumptions() []string {
	return []string{"panics and fatal errors are observed by recover() in the worker and by the exit status/stderr of the isolated worker process",
		"repository sample files are capped at 96 KiB (their metadata is at the front)",
		"panics the library itself converts to errors with recover() count as returned (tallied as library_recovered_panics)",
		"the worker's stack limit is 16 MB instead of Go's default 1 GB: a decode that needs more than 16 MB of stack for an input of at most 2 MB grows its stack with the input and would overflow the default limit on an input 60 times larger; the pinned code uses a few KB"}
}
func (e *C01) Plan(tier string, seed uint64) int {
	p := e.getPlan(tier, seed)
	return p.nTrunc + p.nMut + p.nRand + p.nShape
}
func (e *C01) MinNontrivial(tier string) int { return 40 }

// InitWorker lowers the goroutine stack limit from 1 GB to 16 MB: stack use that grows with the
// input then overflows (a fatal error the driver attributes to the case) on megabyte inputs.
func (e *C01) InitWorker(c *core.Ctx) { debug.SetMaxStack(16 << 20) }

func c01Call(c *core.Ctx, ent Entry, rs *mon.RS, what string) string {
	var o string
	dumpInput(c, ent.Name, rs.Data)
	c.SetPhase("entry=" + ent.Name + " " + what)
	panicked, key, text := core.Guard(func() { o = ent.Run(rs) })
	c.Rec.Eval(1)
	if panicked {
		c.Rec.Violation(key, fmt.Sprintf("%s panicked (%s): %s", ent.Name, what, firstLineOf(text)), map[string]any{"entry": ent.Name, "input": what, "panic": text})
		return "panic"
	}
	if strings.Contains(o, "runtime error") {
		c.Rec.Count("library_recovered_panics", 1)
	}
	if rs.Delivered > 24 || (strings.Contains(o, "err=err:") && !strings.Contains(o, "imagetype")) {
		c.Rec.Sig(ent.Name + "|" + outcomeClass(o) + "|" + fmt.Sprint(bucket(rs.Delivered)))
	}
	return o
}

func firstLineOf(s string) string {
	if i := strings.IndexByte(s, '\n'); i >= 0 {
		return s[:i]
	}
	return s
}

func (e *C01) Run(c *core.Ctx, idx int) {
	p := e.getPlan(c.Tier, c.Seed)
	switch {
	case idx < p.nTrunc:
		// locate pair
		pi := sort.Search(len(p.chunkStart), func(i int) bool { return p.chunkStart[i] > idx }) - 1
		pr := p.pairs[pi]
		chunk := idx - p.chunkStart[pi]
		f := p.pop.files[pr.file]
		ent := p.pop.entries[pr.entry]
		lo, hi := chunk*c01Chunk, (chunk+1)*c01Chunk
		if hi > len(pr.cuts) {
			hi = len(pr.cuts)
		}
		for _, k := range pr.cuts[lo:hi] {
			for kind := 0; kind < 5; kind++ {
				rs := mon.NewRS(f.Data)
				kn := readerKind(rs, kind, k)
				c01Call(c, ent, rs, fmt.Sprintf("file=%s cut=%d reader=%s", f.Name, k, kn))
			}
		}
		c.Rec.Count("cut_points", int64(hi-lo))
		if c.Rec.WantSample() && chunk == 0 {
			c.Rec.Sample(map[string]any{"kind": "truncation", "file": f.Name, "entry": ent.Name, "cuts": pr.cuts[lo:hi], "reader_kinds": 5})
		}
	case idx < p.nTrunc+p.nMut:
		r := c.Rng(idx)
		fi := r.Intn(len(p.pop.files))
		f := p.pop.files[fi]
		var data []byte
		var desc string
		if r.Chance(1, 12) {
			d := p.pop.files[r.Intn(len(p.pop.files))]
			data, desc = gen.Splice(r, f.Data, d.Data, f.Fields)
		} else {
			data, desc = gen.Mutate(r, f.Data, f.Fields, r.Pick(1, 1, 1, 2, 2, 3))
		}
		if idx%4 == 1 {
			// the values instead of the structure: zero denominators, impossible dates, extremes
			if d, s, ok := gen.HostileValues(r, f.Data, r.Pick(1, 1, 2, 3, 6)); ok {
				data, desc = d, s
				c.Rec.Count("hostile_value_inputs", 1)
			}
		}
		ents := append([]int(nil), p.pop.natural[fi]...)
		ents = append(ents, r.Intn(len(p.pop.entries)), r.Intn(len(p.pop.entries)))
		for _, ei := range ents {
			rs := mon.NewRS(data)
			what := "clean"
			switch r.Intn(6) {
			case 0:
				what = readerKind(rs, r.Intn(5), r.Intn(len(data)+1))
			case 1:
				rs.Sched = randSched(r)
				what = fmt.Sprint("sched", rs.Sched)
			case 2:
				rs.EOFWithData = true
				what = "data+eof"
			}
			c01Call(c, p.pop.entries[ei], rs, fmt.Sprintf("file=%s mut=%s reader=%s", f.Name, desc, what))
		}
		c.Rec.Count("malformed_inputs", 1)
		if c.Rec.WantSample() && idx%97 == 0 {
			c.Rec.Sample(map[string]any{"kind": "malformation", "file": f.Name, "ops": desc, "len": len(data)})
		}
	case idx >= p.nTrunc+p.nMut+p.nRand:
		r := c.Rng(idx)
		data, desc := gen.Shape(r)
		if idx%40 == 7 {
			data, desc = gen.TileShape(r, r.Range(20000, 300000)) // one tiny unit, thousands of times
		}
		if idx%40 == 27 {
			// megabytes of one loop-targeted pattern (runs of SOI markers, fill bytes, zero-size
			// boxes, ...): with the worker's stack limit lowered to 16 MB, a scanner that recurses
			// once per skipped unit dies here instead of at 60 times the size
			data = gen.LoopShapes(r, r.Range(1<<20, 2<<20))
			desc = fmt.Sprintf("loopshape len=%d head=%x", len(data), data[:12])
		}
		for _, ei := range EntriesFor(p.pop.entries, gen.KindOf(data)) {
			rs := mon.NewRS(data)
			what := "clean"
			switch r.Intn(5) {
			case 0:
				what = readerKind(rs, r.Intn(5), r.Intn(len(data)+1))
			case 1:
				rs.Sched = randSched(r)
				what = fmt.Sprint("sched", rs.Sched)
			}
			c01Call(c, p.pop.entries[ei], rs, fmt.Sprintf("%s reader=%s", desc, what))
		}
		c.Rec.Count("shape_inputs", 1)
	default:
		r := c.Rng(idx)
		n := r.Intn(65)
		if r.Bool() {
			n = r.Intn(4097)
		}
		data := r.Bytes(n)
		if r.Chance(1, 3) && n >= 12 { // give it a plausible start so that parsers get past sniffing
			heads := []string{"\xff\xd8\xff\xe1", "II*\x00\x08\x00\x00\x00", "MM\x00*\x00\x00\x00\x08", "\x89PNG\r\n\x1a\n", "\x00\x00\x00\x18ftypcrx ", "\x00\x00\x00\x18ftypheic", "\x00\x00\x00\x18ftypavif", "<x:xmpmeta "}
			copy(data, heads[r.Intn(len(heads))])
		}
		for _, ent := range p.pop.entries {
			c01Call(c, ent, mon.NewRS(data), fmt.Sprintf("random len=%d", n))
		}
		c.Rec.Count("random_inputs", 1)
	}
}

// CPUBudget: a C01 case makes at most a few hundred cheap calls; anything near this is a hang.
func (e *C01) CPUBudget(tier string, idx int) time.Duration { return 20 * time.Second }
