package props

import (
	"bufio"
	"bytes"
	"encoding/binary"
	"errors"
	"fmt"
	"io"

	"github.com/evanoberholster/imagemeta"
	"github.com/evanoberholster/imagemeta/exif2/ifds"
	"github.com/evanoberholster/imagemeta/isobmff"
	"github.com/evanoberholster/imagemeta/meta"
	"github.com/evanoberholster/imagemeta/meta/utils"

	"verif/harness/internal/core"
	"verif/harness/internal/gen"
	"verif/harness/internal/mon"
)

// C11 — ISOBMFF box containment; CR3 payloads delivered whole.
type C11 struct{}

func (e *C11) ID() string    { return "C11" }
func (e *C11) Level() string { return "exploration" }
func (e *C11) Rule() string {
	return "each case generates a box tree in the shapes the reader walks: ftyp; moov{uuid-Canon{CNCV,CCTP,CTBO,CMT1-4,THMB,unknown...},mvhd,trak{tkhd,mdia}...}; uuid xpacket; uuid preview{PRVW}; mdat; unknown / free / skip / foreign-uuid boxes between top-level boxes and as children (including 8..15-byte last children), 32- and 64-bit sizes, FullBox headers; or a HEIF-shaped file (ftyp, meta{hdlr,pitm,iinf{infe},iprp{ipco,ipma},iloc}, mdat with the Exif item); a third of the cases then make one non-top-level box overstate or understate its size. The reader is driven through isobmff.Reader over a harness-owned 4 KiB bufio.Reader on a counting reader (stream position = bytes taken from the counting reader minus br.Buffered()), one ReadMetadata per top-level box, with recording callbacks that read everything (io.ReadAll, odd-sized reads, io.Copy, Read mixed with the box's own Peek/Discard), nothing, or a part, and that in a sixth of the cases report an error afterwards (the position oracle holds regardless of what a callback returns). Oracle (well-formed trees): after ReadFTYP and after every ReadMetadata the position equals the start of the next top-level box; Exif callbacks for CMT1..CMT4 carry first-directory type IFD0/Exif/MakerNote/GPS, the payload's byte order, first-IFD offset and length, and their reader yields exactly the payload after the 8-byte TIFF header; the XMP callback yields exactly the xpacket payload; the preview callback gets the PRVW width/height/size and exactly the JPEG bytes. Malformed trees: the position never passes the end of the top-level box being processed and equals it when no error is returned. Also through DecodeCR3/PreviewCR3 on the well-formed CR3 shapes (preview bytes must equal the generator's). Non-trivial: >=2 top-level boxes after ftyp and >=1 callback or >=3 nested children; distinct = (top-level type sequence, malformation kind, callback behaviour)."
}
func (e *C11) Assumptions() []string {
	return []string{"top-level boxes are well-formed in every case (the property's malformed variants concern children)", "callback content is asserted for the CR3 callbacks the statement names (CMT1-4, xpacket, PRVW) and, in well-formed HEIF files, for the Exif item (32- and 64-bit mdat headers)"}
}
func (e *C11) Plan(tier string, seed uint64) int {
	if tier == "thorough" {
		return 1500000
	}
	return 40000
}
func (e *C11) MinNontrivial(tier string) int { return 100 }

func allBoxes(top []*gen.Box) []*gen.Box {
	var out []*gen.Box
	var walk func(b *gen.Box, depth int)
	walk = func(b *gen.Box, depth int) {
		if depth > 0 {
			out = append(out, b)
		}
		for _, k := range b.Kids {
			walk(k, depth+1)
		}
	}
	for _, b := range top {
		walk(b, 0)
	}
	return out
}

// lastKidChains returns, for every non-top-level box P that has children and no slack after
// them, the pair (P, last child of P) and, where that child has children itself, the triple.
// Overstating every member of such a chain by the same amount makes the innermost box extend
// beyond the real end of all its ancestors, up to the top-level box.
func lastKidChains(top []*gen.Box) [][]*gen.Box {
	var out [][]*gen.Box
	var walk func(b *gen.Box, depth int)
	walk = func(b *gen.Box, depth int) {
		if depth > 0 && len(b.Kids) > 0 && len(b.Post) == 0 {
			k := b.Kids[len(b.Kids)-1]
			out = append(out, []*gen.Box{b, k})
			if len(k.Kids) > 0 && len(k.Post) == 0 {
				out = append(out, []*gen.Box{b, k, k.Kids[len(k.Kids)-1]})
			}
		}
		for _, k := range b.Kids {
			walk(k, depth+1)
		}
	}
	for _, b := range top {
		walk(b, 0)
	}
	return out
}

func (e *C11) Run(c *core.Ctx, idx int) {
	r := c.Rng(idx)
	heif := idx%6 == 5
	malformed := idx%3 == 1
	var data []byte
	var top []*gen.Box
	var named map[string]*gen.Box
	var parts gen.CR3Parts
	tiny := func() []byte { // the smallest legal TIFF blocks: header only, header + empty directory
		h := []byte("II*\x00\x08\x00\x00\x00")
		if r.Bool() {
			h = []byte("MM\x00*\x00\x00\x00\x08")
		}
		if r.Chance(1, 3) {
			// the first directory does not follow the header directly (legal: the offset says where
			// it is): a gap of 1..64 bytes, then an empty or one-entry directory
			g := r.Pick(1, 2, 8, 8, 16, 64)
			le := h[0] == 'I'
			if le {
				h[4], h[7] = byte(8+g), 0
			} else {
				h[7], h[4] = byte(8+g), 0
			}
			out := append(h, r.Bytes(g)...)
			if r.Bool() {
				return append(out, 0, 0, 0, 0, 0, 0)
			}
			e := []byte{0x01, 0x0f, 0x00, 0x02, 0, 0, 0, 2, 'C', 0, 0, 0} // Make = "C"
			if le {
				e = []byte{0x0f, 0x01, 0x02, 0x00, 2, 0, 0, 0, 'C', 0, 0, 0}
				return append(append(append(out, 1, 0), e...), 0, 0, 0, 0)
			}
			return append(append(append(out, 0, 1), e...), 0, 0, 0, 0)
		}
		return append(h, make([]byte, r.Pick(0, 2, 6, 7, 8, 9))...)
	}
	var heifTIFF []byte
	if heif {
		t, _, _ := gen.SynthPayload(r, r.Bool(), 2)
		if r.Chance(1, 5) {
			t = tiny()
		}
		heifTIFF = t
		data = gen.BuildHEIF(r, t, r.Intn(16))
		// recover the top-level layout with the harness's own walker
		p := 0
		for p+8 <= len(data) {
			sz := int(binary.BigEndian.Uint32(data[p:]))
			if sz == 1 && p+16 <= len(data) {
				sz = int(binary.BigEndian.Uint64(data[p+8:])) // 64-bit size form
			}
			if sz < 8 || p+sz > len(data) {
				break
			}
			top = append(top, &gen.Box{Type: string(data[p+4 : p+8]), Off: p, Size: sz})
			p += sz
		}
		malformed = false
	} else {
		mk := func() []byte {
			if r.Chance(1, 5) {
				return tiny()
			}
			t, _, _ := gen.SynthPayload(r, r.Bool(), 2)
			return t
		}
		if r.Chance(4, 5) {
			parts.CMT1 = mk()
		}
		if r.Chance(4, 5) {
			parts.CMT2 = mk()
		}
		if r.Chance(1, 2) {
			parts.CMT3 = mk()
		}
		if r.Chance(3, 5) {
			parts.CMT4 = mk()
		}
		if r.Chance(3, 4) {
			n := r.Range(0, 3000)
			if r.Bool() {
				parts.XMP = gen.GenXMPRec(r, 40, 200).Serialise(r, gen.RandXMPStyle(r, false), 0)
			} else {
				parts.XMP = r.Bytes(n)
			}
		}
		if r.Chance(3, 4) {
			parts.Preview = append([]byte{0xFF, 0xD8}, r.Bytes(r.Range(0, 9000))...)
			parts.PrvwW, parts.PrvwH = uint16(r.Intn(65536)), uint16(r.Intn(65536))
		}
		if parts.Preview != nil && r.Chance(1, 4) {
			// the size field inside the PRVW payload is data: the box's own size frames the payload
			parts.PrvwSizeDelta = r.Pick(1, 64, 5000, -1, -40)
			if -parts.PrvwSizeDelta > len(parts.Preview) {
				parts.PrvwSizeDelta = -len(parts.Preview)
			}
			parts.PrvwTail = r.Bool()
		}
		if parts.Preview != nil && parts.PrvwSizeDelta == 0 && r.Chance(1, 8) {
			parts.PrvwOdd = true // sizes well formed, content not what the reader expects
		}
		parts.TopNoise = r.Pick(0, 0, 1, 2)
		if r.Chance(1, 4) {
			parts.Align = 1 + r.Intn(41) // a nested header close to a 4 KiB boundary of the stream
		}
		parts.OddSiblings = r.Chance(1, 4)
		parts.CanonTop = r.Chance(1, 6)
		cr3 := gen.BuildCR3(r, parts, r.Pick(0, 1, 2, 3), r.Chance(1, 3))
		top, named = cr3.Top, cr3.Named
		data = cr3.Bytes
		if malformed {
			kids := allBoxes(top)
			if len(kids) == 0 {
				malformed = false
			} else {
				b := kids[r.Intn(len(kids))]
				kind := r.Intn(7)
				chains := lastKidChains(top)
				if kind >= 5 && len(chains) == 0 {
					kind = r.Intn(5)
				}
				switch kind {
				case 5, 6: // a whole chain of last children overstates by the same amount
					ch := chains[r.Intn(len(chains))]
					d := int64(r.Range(1, 64))
					if kind == 6 {
						d = int64(r.Range(65, 20000))
					}
					for _, x := range ch {
						x.SizeDelta = d
					}
					// and make the innermost one a box the reader hands to a callback where possible
					c.Rec.Count("chain_overstatements", 1)
				case 0:
					b.SizeDelta = int64(r.Range(1, 64))
				case 1:
					b.SizeDelta = int64(r.Range(65, 100000))
				case 2:
					b.HasForce, b.SizeForce = true, int64(r.Pick(0xffffffff, 0x7fffffff, 0x80000000, 0xfffffff0))
					if b.Large {
						b.SizeForce = int64(r.Pick(0x7fffffffffffffff, 0x100000000, 0x7ffffffffffffff0))
					}
				case 3:
					b.SizeDelta = -int64(r.Range(1, 16))
				default:
					b.HasForce, b.SizeForce = true, int64(r.Pick(0, 1, 2, 7, 8, 9, 15))
					if b.Large {
						b.SizeForce = int64(r.Pick(0, 8, 15, 16, 17))
					}
				}
				data = nil
				for _, t := range top {
					data = t.Serialise(data)
				}
			}
		}
	}
	seq := ""
	for _, t := range top {
		seq += t.Type + ","
	}
	cbMode := r.Intn(7)      // 0 ReadAll, 1 nothing, 2 part, 3 odd-sized reads, 4 Read+Discard+Read, 5 Peek+Discard+Read interleaved, 6 io.Copy
	cbFail := r.Chance(1, 6) // the callback reports an error after consuming what its mode says
	desc := fmt.Sprintf("top=[%s] heif=%v malformed=%v cb=%d cbfail=%v len=%d", seq, heif, malformed, cbMode, cbFail, len(data))
	errCallback := errors.New("verif: callback rejects the payload")
	cbErr := func() error {
		if cbFail {
			return errCallback
		}
		return nil
	}
	c.SetPhase(desc)
	dumpInput(c, "isobmff", data)
	viol := func(key, msg string) {
		c.Rec.Violation(key, msg+" ("+desc+")", map[string]any{"case": desc})
	}
	rs := mon.NewRS(data)
	br := bufio.NewReaderSize(rs, 4096)
	pos := func() int { return int(rs.Pos) - br.Buffered() }
	rd := isobmff.NewReader(br)
	defer rd.Close()
	callbacks := 0
	var skipped [][2]int // (offset, length) of stretches the current callback skipped with Discard
	consume := func(src io.Reader) (b []byte, clean bool) {
		skipped = skipped[:0]
		switch cbMode {
		case 0:
			b, err := io.ReadAll(src)
			return b, err == nil
		case 1:
			return nil, false
		case 2:
			buf := make([]byte, r.Range(1, 500))
			n, _ := io.ReadFull(src, buf)
			return buf[:n], false
		case 6:
			// io.Copy takes the source's WriterTo when it has one
			var bb bytes.Buffer
			_, err := io.Copy(struct{ io.Writer }{&bb}, src)
			return bb.Bytes(), err == nil
		case 4, 5:
			// the reader handed to a callback also offers Peek and Discard (the library's own Exif
			// reader uses them through a type assertion); a consumer may mix them with Read. Bytes
			// skipped with Discard are recorded as what Peek showed, or as "unknown" (matched by
			// position) when they were not peeked.
			pd, ok := src.(interface {
				Peek(int) ([]byte, error)
				Discard(int) (int, error)
			})
			if !ok {
				b, err := io.ReadAll(src)
				return b, err == nil
			}
			var all []byte
			for step := 0; step < 6; step++ {
				if cbMode == 4 || step%2 == 0 {
					buf := make([]byte, r.Pick(1, 4, 16, 100, 700))
					n, err := src.Read(buf)
					all = append(all, buf[:n]...)
					if err != nil {
						return all, err == io.EOF
					}
				}
				k := r.Pick(1, 2, 8, 32, 200, 1000)
				if cbMode == 5 {
					pk, err := pd.Peek(k)
					if err != nil {
						k = len(pk)
					}
					if len(pk) < k {
						k = len(pk)
					}
					n, _ := pd.Discard(k)
					if n > len(pk) {
						n = len(pk)
					}
					all = append(all, pk[:n]...)
				} else {
					n, _ := pd.Discard(k)
					skipped = append(skipped, [2]int{len(all), n})
					all = append(all, make([]byte, n)...)
				}
			}
			rest, err := io.ReadAll(src)
			return append(all, rest...), err == nil
		default:
			var all []byte
			buf := make([]byte, r.Pick(1, 5, 127, 2049, 5000))
			for {
				n, err := src.Read(buf)
				all = append(all, buf[:n]...)
				if err != nil {
					return all, err == io.EOF
				}
				if n == 0 && len(all) > 1<<22 {
					return all, false
				}
			}
		}
	}
	// sameBytes compares what a consumer gathered with the payload, taking stretches it skipped
	// with Discard (without looking) from the payload itself: only their length counts.
	sameBytes := func(got, want []byte) bool {
		if len(got) != len(want) {
			return false
		}
		g := append([]byte(nil), got...)
		for _, sk := range skipped {
			if sk[0]+sk[1] <= len(g) {
				copy(g[sk[0]:sk[0]+sk[1]], want[sk[0]:sk[0]+sk[1]])
			}
		}
		skipped = skipped[:0]
		return bytes.Equal(g, want)
	}
	full := cbMode == 0 || cbMode >= 3
	cmtSeen := map[ifds.IfdType]int{}
	curEnd := len(data) // end of the top-level box being processed
	escaped := func(what string) {
		if p := pos(); p > curEnd {
			viol("bmff:callback-escape", fmt.Sprintf("the %s callback could read up to stream position %d, beyond the end %d of the enclosing top-level box", what, p, curEnd))
		}
	}
	rd.ExifReader = func(src io.Reader, h meta.ExifHeader) error {
		callbacks++
		got, clean := consume(src)
		escaped("Exif")
		if heif && !malformed && len(heifTIFF) >= 8 {
			// the Exif item of a HEIF file: what the callback is told and given must describe the
			// item's TIFF block, no more and no fewer bytes (the item ends with the block)
			pl := heifTIFF
			bo, o := utils.LittleEndian, binary.ByteOrder(binary.LittleEndian)
			if pl[0] == 'M' {
				bo, o = utils.BigEndian, binary.BigEndian
			}
			if h.ByteOrder != bo || h.FirstIfdOffset != o.Uint32(pl[4:]) || int(h.ExifLength) != len(pl) {
				viol("bmff:heif-exif-header", fmt.Sprintf("Exif item header (order %v, first %d, len %d) does not describe the item's TIFF block (order %v, first %d, len %d)", h.ByteOrder, h.FirstIfdOffset, h.ExifLength, bo, o.Uint32(pl[4:]), len(pl)))
			}
			if full {
				if !sameBytes(got, pl[8:]) {
					viol("bmff:heif-exif-bytes", fmt.Sprintf("Exif item callback reader yielded %d bytes, the block after its TIFF header has %d (or content differs)", len(got), len(pl)-8))
				} else if !clean {
					viol("bmff:heif-exif-eof", "Exif item callback reader did not end with a clean EOF")
				}
			} else if !bytes.HasPrefix(pl[8:], got) {
				viol("bmff:heif-exif-bytes", "Exif item callback reader yielded bytes that are not a prefix of the block")
			}
			return cbErr()
		}
		if heif || malformed {
			return cbErr()
		}
		name := map[ifds.IfdType]string{ifds.IFD0: "CMT1", ifds.ExifIFD: "CMT2", ifds.MknoteIFD: "CMT3", ifds.GPSIFD: "CMT4"}[h.FirstIfd]
		cmtSeen[h.FirstIfd]++
		bx := named[name]
		if bx == nil {
			viol("bmff:exif-ifdtype", fmt.Sprintf("Exif callback with first-directory type %v for which the file has no box", h.FirstIfd))
			return nil
		}
		pl := bx.Payload
		bo, o := utils.LittleEndian, binary.ByteOrder(binary.LittleEndian)
		if pl[0] == 'M' {
			bo, o = utils.BigEndian, binary.BigEndian
		}
		if h.ByteOrder != bo || h.FirstIfdOffset != o.Uint32(pl[4:]) || int(h.ExifLength) != len(pl) {
			viol("bmff:exif-header", fmt.Sprintf("%s header (order %v, first %d, len %d) does not describe the payload (order %v, first %d, len %d)", name, h.ByteOrder, h.FirstIfdOffset, h.ExifLength, bo, o.Uint32(pl[4:]), len(pl)))
		}
		if full {
			if !sameBytes(got, pl[8:]) {
				viol("bmff:exif-bytes", fmt.Sprintf("%s callback reader yielded %d bytes, payload after the TIFF header has %d (or content differs)", name, len(got), len(pl)-8))
			} else if !clean {
				viol("bmff:exif-eof", name+" callback reader did not end with a clean EOF")
			}
		} else if !bytes.HasPrefix(pl[8:], got) {
			viol("bmff:exif-bytes", name+" callback reader yielded bytes that are not a prefix of the payload")
		}
		return cbErr()
	}
	rd.XMPReader = func(src io.Reader) error {
		callbacks++
		got, clean := consume(src)
		escaped("XMP")
		if heif || malformed {
			return cbErr()
		}
		if full {
			if !sameBytes(got, parts.XMP) {
				viol("bmff:xmp-bytes", fmt.Sprintf("XMP callback reader yielded %d bytes, xpacket payload has %d (or content differs)", len(got), len(parts.XMP)))
			} else if !clean {
				viol("bmff:xmp-eof", "XMP callback reader did not end with a clean EOF")
			}
		} else if !bytes.HasPrefix(parts.XMP, got) {
			viol("bmff:xmp-bytes", "XMP callback reader yielded bytes that are not a prefix of the payload")
		}
		return cbErr()
	}
	rd.PreviewImageReader = func(src io.Reader, h meta.PreviewHeader) error {
		callbacks++
		got, clean := consume(src)
		escaped("preview")
		if heif || malformed {
			return cbErr()
		}
		if int(h.Size) != len(parts.Preview)+parts.PrvwSizeDelta || h.Width != parts.PrvwW || h.Height != parts.PrvwH {
			viol("bmff:prvw-header", fmt.Sprintf("preview header %+v, file has size field %d w %d h %d", h, len(parts.Preview)+parts.PrvwSizeDelta, parts.PrvwW, parts.PrvwH))
		}
		if full {
			if !sameBytes(got, parts.Preview) {
				viol("bmff:prvw-bytes", fmt.Sprintf("preview callback reader yielded %d bytes, PRVW holds %d (or content differs)", len(got), len(parts.Preview)))
			} else if !clean {
				viol("bmff:prvw-eof", "preview callback reader did not end with a clean EOF")
			}
		} else if !bytes.HasPrefix(parts.Preview, got) {
			viol("bmff:prvw-bytes", "preview callback reader yielded bytes that are not a prefix of the payload")
		}
		return cbErr()
	}
	var err error
	pk, key, text := core.Guard(func() {
		err = rd.ReadFTYP()
		c.Rec.Eval(1)
		end := top[0].Off + top[0].Size
		if err != nil {
			viol("bmff:ftyp-error", fmt.Sprintf("ReadFTYP failed on a well-formed ftyp: %v", err))
			return
		}
		if pos() != end {
			viol("bmff:position:ftyp", fmt.Sprintf("after ReadFTYP the reader stands at %d, next top-level box starts at %d", pos(), end))
			return
		}
		for i := 1; i < len(top); i++ {
			end = top[i].Off + top[i].Size
			curEnd = end
			err = rd.ReadMetadata()
			c.Rec.Eval(1)
			p := pos()
			switch {
			case p > end:
				viol("bmff:escape:"+top[i].Type, fmt.Sprintf("processing top-level %s [%d,%d) consumed up to %d: beyond the box's end", top[i].Type, top[i].Off, end, p))
				return
			case p != end && (!malformed || err == nil || (cbFail && errors.Is(err, errCallback))):
				viol("bmff:position:"+top[i].Type, fmt.Sprintf("after top-level %s [%d,%d) the reader stands at %d (err=%v)", top[i].Type, top[i].Off, end, p, err))
				return
			case err != nil && parts.PrvwOdd && named["uuid-preview"] != nil && top[i] == named["uuid-preview"]:
				// the reader may reject the box's content; it stands behind the box all the same
			case err != nil && !malformed && !(cbFail && errors.Is(err, errCallback)):
				viol("bmff:error:"+top[i].Type, fmt.Sprintf("ReadMetadata failed on well-formed top-level %s: %v", top[i].Type, err))
				return
			}
			if p != end {
				return // malformed and reported as an error: position inside the box is acceptable
			}
		}
	})
	if pk {
		viol("bmff:"+key, "isobmff reader panicked: "+firstLineOf(text))
		return
	}
	if !heif && !malformed {
		// every CMT box present must have produced exactly one callback with its own directory type
		for nm, ty := range map[string]ifds.IfdType{"CMT1": ifds.IFD0, "CMT2": ifds.ExifIFD, "CMT3": ifds.MknoteIFD, "CMT4": ifds.GPSIFD} {
			wantN := 0
			if bx := named[nm]; bx != nil && len(bx.Payload) >= 8 {
				wantN = 1
			}
			if cmtSeen[ty] != wantN {
				viol("bmff:cmt-callbacks", fmt.Sprintf("%d Exif callbacks with directory type %v for %d %s boxes", cmtSeen[ty], ty, wantN, nm))
			}
		}
		// through the top-level helpers (they call ReadMetadata a fixed number of times, so only
		// files whose boxes come in the canonical order qualify)
		if parts.TopNoise == 0 && !parts.CanonTop && parts.PrvwSizeDelta == 0 && !parts.PrvwOdd && parts.XMP != nil && parts.Preview != nil {
			imagemeta.VerifResetState()
			pv, perr := imagemeta.PreviewCR3(mon.NewRS(data))
			c.Rec.Eval(1)
			if perr != nil || !bytes.Equal(pv, parts.Preview) {
				viol("bmff:previewcr3", fmt.Sprintf("PreviewCR3 returned %d bytes err=%v, PRVW holds %d bytes", len(pv), perr, len(parts.Preview)))
			}
		}
	}
	nested := len(allBoxes(top))
	if len(top) >= 3 && (callbacks >= 1 || nested >= 3) {
		mk := "wf"
		if malformed {
			mk = "malformed"
		}
		c.Rec.Sig(fmt.Sprintf("%s|%s|%d", seq, mk, cbMode))
	}
	c.Rec.Count("callbacks_checked", int64(callbacks))
	if c.Rec.WantSample() && idx%173 == 3 {
		c.Rec.Sample(map[string]any{"case": desc, "callbacks": callbacks, "nested_boxes": nested})
	}
}
