// Package props holds one engine per property.
package props

import (
	"bufio"
	"fmt"
	"io"
	"strings"

	"github.com/evanoberholster/imagemeta"
	"github.com/evanoberholster/imagemeta/exif2"
	"github.com/evanoberholster/imagemeta/imagetype"
	"github.com/evanoberholster/imagemeta/isobmff"
	"github.com/evanoberholster/imagemeta/jpeg"
	"github.com/evanoberholster/imagemeta/meta"
	"github.com/evanoberholster/imagemeta/png"
	"github.com/evanoberholster/imagemeta/preview"
	"github.com/evanoberholster/imagemeta/tiff"
	"github.com/evanoberholster/imagemeta/xmp"

	"verif/harness/internal/mon"
	"verif/harness/internal/obs"
)

// Entry is one public decode entry point driven with an instrumented reader. Run returns a
// canonical observation of everything the call reported (values and error), used by the
// differential checks; C01 only needs it to return.
type Entry struct {
	Name  string
	Kinds string // file kinds the entry is natural for ("" = all)
	Run   func(rs *mon.RS) string
}

// entryRaw holds, per entry name, the library call alone, its result discarded unformatted (C14
// measures this: building the observation string of a result with tens of thousands of items is
// the harness's cost).
var entryRaw map[string]func(rs *mon.RS)

func exifObs(e exif2.Exif, err error) string {
	return "err=" + obs.Err(err) + "\n" + obs.Exif(e).String()
}

func hdrObs(h meta.ExifHeader, err error) string {
	return fmt.Sprintf("err=%s bo=%v first=%d tiff=%d len=%d ifd=%v it=%v", obs.Err(err), h.ByteOrder, h.FirstIfdOffset, h.TiffHeaderOffset, h.ExifLength, h.FirstIfd, h.ImageType)
}

// readSome consumes a callback reader the way a consumer legitimately may.
func drain(r io.Reader, limit int) (n int, sum uint64, err error) {
	buf := make([]byte, 777)
	zeros := 0
	for n < limit {
		k, e := r.Read(buf)
		for _, c := range buf[:k] {
			sum = sum*1099511628211 + uint64(c)
		}
		n += k
		if e != nil {
			if e != io.EOF {
				err = e
			}
			return
		}
		if k == 0 {
			// (0, nil) is legal; like bufio, give up only after many in a row
			if zeros++; zeros > 100 {
				return
			}
			continue
		}
		zeros = 0
	}
	return
}

func bmffRun(rs io.Reader, calls int, mode int) string {
	var sb strings.Builder
	r := isobmff.NewReader(rs)
	defer r.Close()
	var ir = exif2.NewIfdReader(exif2.Logger)
	defer ir.Close()
	var lastXMP xmp.XMP
	pr := preview.NewPreviewReader(preview.Logger)
	switch mode {
	case 1: // the library's own consumers
		r.ExifReader = ir.DecodeIfd
		r.XMPReader = func(rd io.Reader) error {
			x, err := xmp.ParseXmp(rd)
			lastXMP = x
			return err
		}
		r.PreviewImageReader = pr.RenderPreview
	case 2: // recording callbacks
		r.ExifReader = func(rd io.Reader, h meta.ExifHeader) error {
			n, sum, err := drain(rd, 1<<22)
			fmt.Fprintf(&sb, "exif(%s n=%d sum=%x err=%v);", hdrObs(h, nil), n, sum, err)
			return nil
		}
		r.XMPReader = func(rd io.Reader) error {
			n, sum, err := drain(rd, 1<<22)
			fmt.Fprintf(&sb, "xmp(n=%d sum=%x err=%v);", n, sum, err)
			return nil
		}
		r.PreviewImageReader = func(rd io.Reader, h meta.PreviewHeader) error {
			n, sum, err := drain(rd, 1<<22)
			fmt.Fprintf(&sb, "prvw(%v n=%d sum=%x err=%v);", h, n, sum, err)
			return nil
		}
	}
	err := r.ReadFTYP()
	fmt.Fprintf(&sb, "ftyp=%s;", obs.Err(err))
	if err == nil {
		for i := 0; i < calls; i++ {
			err = r.ReadMetadata()
			fmt.Fprintf(&sb, "md%d=%s;", i, obs.Err(err))
			if err != nil {
				break
			}
		}
	}
	if mode == 1 {
		sb.WriteString("\n" + obs.Exif(ir.Exif).String() + obs.XMP(lastXMP).String() + "preview=" + obs.Bytes(pr.PreviewImage))
	}
	return sb.String()
}

func jpegRun(rs io.Reader, mode int) string {
	var sb strings.Builder
	switch mode {
	case 0:
		err := jpeg.ScanJPEG(rs, nil, nil)
		return "err=" + obs.Err(err)
	case 1:
		ir := exif2.NewIfdReader(exif2.Logger)
		defer ir.Close()
		var lastXMP xmp.XMP
		err := jpeg.ScanJPEG(rs, ir.DecodeJPEGIfd, func(rd io.Reader) error {
			x, err := xmp.ParseXmp(rd)
			lastXMP = x
			return err
		})
		return "err=" + obs.Err(err) + "\n" + obs.Exif(ir.Exif).String() + obs.XMP(lastXMP).String()
	default:
		err := jpeg.ScanJPEG(rs, func(rd io.Reader, h meta.ExifHeader) error {
			n, sum, e := drain(io.LimitReader(rd, int64(h.ExifLength)), 1<<22)
			fmt.Fprintf(&sb, "exif(%s n=%d sum=%x err=%v);", hdrObs(h, nil), n, sum, e)
			return nil
		}, func(rd io.Reader) error {
			n, sum, e := drain(rd, 1<<22)
			fmt.Fprintf(&sb, "xmp(n=%d sum=%x err=%v);", n, sum, e)
			return nil
		})
		return sb.String() + "err=" + obs.Err(err)
	}
}

// Entries is the E-set.
func Entries() []Entry {
	es := []Entry{
		{"Decode", "", func(rs *mon.RS) string { return exifObs(imagemeta.Decode(rs)) }},
		{"DecodeTiff", "tiff,heif", func(rs *mon.RS) string { return exifObs(imagemeta.DecodeTiff(rs)) }},
		{"DecodeCR2", "tiff", func(rs *mon.RS) string { return exifObs(imagemeta.DecodeCR2(rs)) }},
		{"DecodeHeif", "heif,tiff", func(rs *mon.RS) string { return exifObs(imagemeta.DecodeHeif(rs)) }},
		{"DecodeJPEG", "jpeg", func(rs *mon.RS) string { return exifObs(imagemeta.DecodeJPEG(rs)) }},
		{"DecodePng", "png", func(rs *mon.RS) string { return exifObs(imagemeta.DecodePng(rs)) }},
		{"DecodeCR3", "cr3,heif,avif", func(rs *mon.RS) string { return exifObs(imagemeta.DecodeCR3(rs)) }},
		{"PreviewCR3", "cr3,heif,avif", func(rs *mon.RS) string {
			b, err := imagemeta.PreviewCR3(rs)
			return "err=" + obs.Err(err) + " preview=" + obs.Bytes(b)
		}},
		{"exif2.Parse", "tiff,jpeg,heif,png,other", func(rs *mon.RS) string { return exifObs(exif2.Parse(rs)) }},
		{"jpeg.ScanJPEG/nil", "jpeg", func(rs *mon.RS) string { return jpegRun(rs, 0) }},
		{"jpeg.ScanJPEG/lib", "jpeg", func(rs *mon.RS) string { return jpegRun(rs, 1) }},
		{"jpeg.ScanJPEG/rec", "jpeg", func(rs *mon.RS) string { return jpegRun(rs, 2) }},
		{"jpeg.ScanJPEG/lib/bufio", "jpeg", func(rs *mon.RS) string { return jpegRun(bufio.NewReaderSize(rs, 4096), 1) }},
		{"tiff.ScanTiffHeader", "tiff,heif,jpeg,other", func(rs *mon.RS) string {
			return hdrObs(tiff.ScanTiffHeader(rs, imagetype.ImageUnknown))
		}},
		{"tiff.ScanTiffHeader/bufio", "tiff,heif", func(rs *mon.RS) string {
			br := bufio.NewReaderSize(rs, 4096)
			h, err := tiff.ScanTiffHeader(br, imagetype.ImageHEIF)
			nx, _ := br.Peek(4)
			return hdrObs(h, err) + fmt.Sprintf(" next=%x", nx)
		}},
		{"png.ScanPngHeader", "png", func(rs *mon.RS) string { return hdrObs(png.ScanPngHeader(rs)) }},
		{"isobmff/nil", "cr3,heif,avif", func(rs *mon.RS) string { return bmffRun(rs, 4, 0) }},
		{"isobmff/lib", "cr3,heif,avif", func(rs *mon.RS) string { return bmffRun(rs, 4, 1) }},
		{"isobmff/rec", "cr3,heif,avif", func(rs *mon.RS) string { return bmffRun(rs, 5, 2) }},
		{"isobmff/lib/bufio", "cr3,heif,avif", func(rs *mon.RS) string { return bmffRun(bufio.NewReaderSize(rs, 8192), 4, 1) }},
		{"xmp.ParseXmp", "xmp,jpeg,cr3", func(rs *mon.RS) string {
			x, err := xmp.ParseXmp(rs)
			return "err=" + obs.Err(err) + "\n" + obs.XMP(x).String()
		}},
		{"xmp.ParseXmp/bufio", "xmp", func(rs *mon.RS) string {
			x, err := xmp.ParseXmp(bufio.NewReaderSize(rs, 2048))
			return "err=" + obs.Err(err) + "\n" + obs.XMP(x).String()
		}},
		{"xmp.ParseXmp/bufio4096", "xmp", func(rs *mon.RS) string {
			x, err := xmp.ParseXmp(bufio.NewReaderSize(rs, 4096))
			return "err=" + obs.Err(err) + "\n" + obs.XMP(x).String()
		}},
		{"xmp.ParseXmp/bufio16384", "xmp", func(rs *mon.RS) string {
			x, err := xmp.ParseXmp(bufio.NewReaderSize(rs, 16384))
			return "err=" + obs.Err(err) + "\n" + obs.XMP(x).String()
		}},
		{"imagetype.Scan", "", func(rs *mon.RS) string {
			t, err := imagetype.Scan(rs)
			return fmt.Sprintf("t=%d err=%s", t, obs.Err(err))
		}},
		{"imagetype.ScanBuf", "", func(rs *mon.RS) string {
			t, err := imagetype.ScanBuf(bufio.NewReaderSize(rs, 64))
			return fmt.Sprintf("t=%d err=%s", t, obs.Err(err))
		}},
		{"imagetype.ReadAt", "", func(rs *mon.RS) string {
			t, err := imagetype.ReadAt(rs)
			return fmt.Sprintf("t=%d err=%s", t, obs.Err(err))
		}},
		{"imagetype.Buf", "", func(rs *mon.RS) string {
			lim := len(rs.Data)
			if rs.Limit >= 0 && rs.Limit < lim {
				lim = rs.Limit
			}
			t, err := imagetype.Buf(rs.Data[:lim])
			return fmt.Sprintf("t=%d err=%s", t, obs.Err(err))
		}},
		{"CleanXMPSuffixWhiteSpace", "xmp", func(rs *mon.RS) string {
			lim := len(rs.Data)
			if rs.Limit >= 0 && rs.Limit < lim {
				lim = rs.Limit
			}
			a := meta.CleanXMPSuffixWhiteSpace(append([]byte(nil), rs.Data[:lim]...))
			b := xmp.CleanXMPSuffixWhiteSpace(append([]byte(nil), rs.Data[:lim]...))
			return fmt.Sprintf("a=%s b=%s", obs.Bytes(a), obs.Bytes(b))
		}},
	}
	raw := map[string]func(rs *mon.RS){
		"Decode":                  func(rs *mon.RS) { _, _ = imagemeta.Decode(rs) },
		"DecodeTiff":              func(rs *mon.RS) { _, _ = imagemeta.DecodeTiff(rs) },
		"DecodeCR2":               func(rs *mon.RS) { _, _ = imagemeta.DecodeCR2(rs) },
		"DecodeHeif":              func(rs *mon.RS) { _, _ = imagemeta.DecodeHeif(rs) },
		"DecodeJPEG":              func(rs *mon.RS) { _, _ = imagemeta.DecodeJPEG(rs) },
		"DecodePng":               func(rs *mon.RS) { _, _ = imagemeta.DecodePng(rs) },
		"DecodeCR3":               func(rs *mon.RS) { _, _ = imagemeta.DecodeCR3(rs) },
		"PreviewCR3":              func(rs *mon.RS) { _, _ = imagemeta.PreviewCR3(rs) },
		"exif2.Parse":             func(rs *mon.RS) { _, _ = exif2.Parse(rs) },
		"jpeg.ScanJPEG/nil":       func(rs *mon.RS) { _ = jpeg.ScanJPEG(rs, nil, nil) },
		"tiff.ScanTiffHeader":     func(rs *mon.RS) { _, _ = tiff.ScanTiffHeader(rs, imagetype.ImageUnknown) },
		"png.ScanPngHeader":       func(rs *mon.RS) { _, _ = png.ScanPngHeader(rs) },
		"xmp.ParseXmp":            func(rs *mon.RS) { _, _ = xmp.ParseXmp(rs) },
		"xmp.ParseXmp/bufio":      func(rs *mon.RS) { _, _ = xmp.ParseXmp(bufio.NewReaderSize(rs, 2048)) },
		"xmp.ParseXmp/bufio4096":  func(rs *mon.RS) { _, _ = xmp.ParseXmp(bufio.NewReaderSize(rs, 4096)) },
		"xmp.ParseXmp/bufio16384": func(rs *mon.RS) { _, _ = xmp.ParseXmp(bufio.NewReaderSize(rs, 16384)) },
		"imagetype.Scan":          func(rs *mon.RS) { _, _ = imagetype.Scan(rs) },
		"imagetype.ScanBuf":       func(rs *mon.RS) { _, _ = imagetype.ScanBuf(bufio.NewReaderSize(rs, 64)) },
		"imagetype.ReadAt":        func(rs *mon.RS) { _, _ = imagetype.ReadAt(rs) },
	}
	entryRaw = raw
	return es
}

// EntriesFor returns the entries natural for a file kind, plus (every k-th call) any entry.
func EntriesFor(all []Entry, kind string) []int {
	var out []int
	for i, e := range all {
		if e.Kinds == "" || strings.Contains(e.Kinds, kind) {
			out = append(out, i)
		}
	}
	return out
}
