package props

import (
	"fmt"
	"image"
	"math"
	"unsafe"

	"github.com/evanoberholster/imagemeta/imagehash"
	"github.com/evanoberholster/imagemeta/imagehash/transforms"
	"github.com/evanoberholster/imagemeta/imagehash/transforms32"

	"verif/harness/internal/core"
	"verif/harness/internal/gen"
	"verif/harness/internal/mon"
)

// C18 — vectorised DCT kernels equal the portable kernels bit-for-bit and match DCT-II.
type C18 struct {
	seq      int
	origF64  func([]float32)
	origF256 func([]float32)
	origGray func(*image.YCbCr, []float32)
	origFlag bool
}

const (
	c18Bound32   = 1e-5  // |go(x) - DCTII(x)|_inf <= 1e-5 * ||x||_1 (float32 kernels)
	c18Bound64   = 1e-12 // float64 kernels
	c18Bound2D   = 2.5e-5
	c18BatchSize = 200
)

var c18Scales = []float64{1, -1, 255, 1e-6, 1e6, -3.7e3, 1e-3, 1e3}

func (e *C18) ID() string    { return "C18" }
func (e *C18) Level() string { return "exploration" }
func (e *C18) Rule() string {
	return "sections: (0) self-test of the guard-page sanitizer (a deliberately over-long operand must fault); (A, exhaustive) every unit impulse of the 64- and 256-point kernels at 8 signed scales over 12 decades, and every one of the 4096 unit impulses of the 64x64 2-D kernel; (B) edge vectors (constant, alternating, ramps, steps, extremes, pixel-like integers, zero, signed zeros, infinities (flat, single, same-sign and opposite-sign pairs at mirror positions; NaN lanes compare as NaN), subnormal constants / ramps / impulses, normal entries with subnormal differences); (C) seeded random vectors (uniform, normal, 0..255 integers, sparse, smooth) at scales 1e-6..1e6 (a tenth of them at 1e-45..1e-36, where float32 underflows gradually) in batches of 200; (D) random and image-like 64x64 inputs for the 2-D kernel; (E) dispatch (also: the exported ForwardDCT64/256 on slices shorter than the transform, flush against the guard page - they may panic, not reach behind the slice): exported DCT2DHash64/DCT2DHash256 and NewPHash64Alt/NewPHash256Alt with FlagUseASM / ForwardDCT64 / ForwardDCT256 switched between the assembly and the portable kernels. Oracle per vector: bits(asm(x)) == bits(go(x)) in every lane, with the assembly operand placed flush against a PROT_NONE page (end placement and start placement alternate; the 16 KiB 2-D operand is flush on both sides; every third or fourth operand is only 4-byte aligned, 4..12 bytes from the guard page) and the canary slack re-checked; |go(x)-DCTII(x)|_inf <= 1e-5*||x||_1 against a direct O(N^2) float64 DCT-II (2.5e-5 for the two-pass 2-D kernel; asserted where the mean magnitude is at least 1e-30, below that results are subnormal and only bit-equality is asserted); float64 kernels within 1e-12*||x||_1. Non-trivial: a non-zero vector; distinct = distinct (kernel, family, scale decade, placement)."
}
func (e *C18) Assumptions() []string {
	return []string{
		"finite inputs only (NaN payload propagation is not a pixel case); magnitudes 1e-6..1e6 as the statement's 12 decades",
		"the guard-page sanitizer sees accesses that leave the operand by up to one page on the flush side, or that land in the canary slack; a wild store into another mapping is invisible",
		"this CPU has AVX2, so the assembly kernels are the ones the package selects; the portable kernels are reached through the verif exports",
	}
}
func (e *C18) MinNontrivial(tier string) int { return 40 }

type c18plan struct{ imp64, imp256, imp2d, edge, rnd64, rnd256, rnd2d, disp int }

func c18Plan(tier string) c18plan {
	if tier == "thorough" {
		return c18plan{64, 256, 64, 2, 60000, 60000, 120000, 8000}
	}
	return c18plan{64, 256, 64, 2, 400, 400, 1200, 120}
}

func (p c18plan) total() int {
	return 1 + p.imp64 + p.imp256 + p.imp2d + p.edge + p.rnd64 + p.rnd256 + p.rnd2d + p.disp
}

func (e *C18) Plan(tier string, seed uint64) int { return c18Plan(tier).total() }

func (e *C18) Exhaustive(tier string) bool { return false }

func (e *C18) InitWorker(c *core.Ctx) {
	e.origF64, e.origF256, e.origGray, e.origFlag = transforms32.ForwardDCT64, transforms32.ForwardDCT256, transforms32.YCbCrToGray, transforms32.FlagUseASM
}

func bitsEq32(a, b []float32) int {
	for i := range a {
		if math.Float32bits(a[i]) != math.Float32bits(b[i]) {
			if a[i] != a[i] && b[i] != b[i] {
				// both NaN (only the infinite edge vectors produce any): which payload and sign a
				// NaN carries depends on operand order, not on the transform; "is NaN" is the value
				continue
			}
			return i
		}
	}
	return -1
}

// zeroSignOnly reports whether a and b differ, and only in lanes where both are zero (+0 vs -0).
func zeroSignOnly(a, b []float32) bool {
	diff := false
	for i := range a {
		x, y := math.Float32bits(a[i]), math.Float32bits(b[i])
		if x != y {
			diff = true
			if x&0x7fffffff != 0 || y&0x7fffffff != 0 {
				return false
			}
		}
	}
	return diff
}

// biteqKey gives the finding key of a bit difference: the listed zero-sign finding or the kernel.
func biteqKey(a, b []float32, kernel string) string {
	if zeroSignOnly(a, b) {
		return "biteq:zero-sign"
	}
	return "biteq:" + kernel
}

// check1D runs every oracle on one vector of length 64 or 256.
func (e *C18) check1D(c *core.Ctx, x []float32, family string, atEnd bool) {
	n := len(x)
	kname := fmt.Sprintf("dct%d", n)
	goK, asmK, f64K, dispK := transforms32.VerifGoDCT64, transforms32.VerifAsmDCT64, transforms.VerifDCT64, e.origF64
	if n == 256 {
		goK, asmK, f64K, dispK = transforms32.VerifGoDCT256, transforms32.VerifAsmDCT256, transforms.VerifDCT256, e.origF256
	}
	x64 := make([]float64, n)
	for i, v := range x {
		x64[i] = float64(v)
	}
	norm := l1(x64)
	detail := func() map[string]any {
		return map[string]any{"kernel": kname, "family": family, "placement_at_end": atEnd, "input": append([]float32(nil), x...)}
	}
	// portable kernel
	goOut := append([]float32(nil), x...)
	goK(goOut)
	// assembly kernel on a guarded operand; every third vector sits at an address that is only
	// 4-byte aligned (a []float32 may start anywhere), 4..12 bytes away from the guard page
	gp := guardsFor(4 * n)
	g := gp.pick(atEnd)
	e.seq++
	if e.seq%3 == 0 {
		g = misalignedGuard(4*n, atEnd, 4*(1+(e.seq/3)%3))
	}
	op := g.Float32s()
	copy(op, x)
	guards := map[string]*mon.Guard{"input": g}
	ft := mon.CatchFault(func() { asmK(op) })
	c.Rec.Eval(3)
	c.Rec.Count("guarded_asm_calls", 1)
	if ft.Faulted || ft.Panic {
		reportFault(c, ft, "assembly "+kname, guards, detail())
		return
	}
	checkCanaries(c, "assembly "+kname, guards, detail())
	if i := bitsEq32(op, goOut); i >= 0 {
		d := detail()
		d["lane"], d["asm"], d["go"] = i, op[i], goOut[i]
		c.Rec.Violation(biteqKey(op, goOut, kname), fmt.Sprintf("assembly and portable %d-point kernels differ in lane %d: asm %.9g (%#08x) go %.9g (%#08x) [%s]", n, i, op[i], math.Float32bits(op[i]), goOut[i], math.Float32bits(goOut[i]), family), d)
	}
	// the kernel the package selected at init (what callers of ForwardDCT64/256 get)
	// (on a guarded operand as well: a selected kernel that is the wrong one - the 256-point
	// routine under the 64-point name - must fault on the guard page, not overrun a heap object
	// and leave the worker with a corrupted heap)
	gd := guardsFor(4 * n).pick(true)
	dOut := gd.Float32s()
	copy(dOut, x)
	if ft := mon.CatchFault(func() { dispK(dOut) }); ft.Faulted || ft.Panic {
		reportFault(c, ft, "exported ForwardDCT"+fmt.Sprint(n), map[string]*mon.Guard{"input": gd}, detail())
		return
	}
	if i := bitsEq32(dOut, goOut); i >= 0 {
		d := detail()
		d["lane"] = i
		c.Rec.Violation(biteqKey(dOut, goOut, "dispatch-"+kname), fmt.Sprintf("exported ForwardDCT%d differs from the portable kernel in lane %d", n, i), d)
	}
	// DCT-II definition
	ref := make([]float64, n)
	refDCT(x64, n, ref)
	worst, wi := 0.0, 0
	for i := range ref {
		if d := math.Abs(float64(goOut[i]) - ref[i]); d > worst {
			worst, wi = d, i
		}
	}
	if norm > 0 {
		c.Rec.Max("err_ratio_"+kname+"_f32", worst/norm)
	}
	if worst > c18Bound32*norm && norm/float64(n) >= c18NormalRange {
		key := "dctii:" + kname
		if n == 256 {
			// the listed finding: the excess over 1e-5*||x||_1 is explained by the mass that sits
			// on the butterfly-centre indices of the first three recursion levels
			allowed, centre := dct256WeightedL1(x64)
			if centre > 0 && worst <= allowed {
				key = "dct256:centre-mass"
			}
		}
		d := detail()
		d["output_index"], d["go"], d["dctii"], d["error_over_l1"] = wi, goOut[wi], ref[wi], worst/norm
		c.Rec.Violation(key, fmt.Sprintf("portable %d-point float32 kernel is off the DCT-II definition by %.3g*||x||_1 at output %d (bound 1e-5) [%s]", n, worst/norm, wi, family), d)
	}
	// float64 kernel
	f := append([]float64(nil), x64...)
	f64K(f)
	c.Rec.Eval(1)
	worst, wi = 0, 0
	for i := range ref {
		if d := math.Abs(f[i] - ref[i]); d > worst {
			worst, wi = d, i
		}
	}
	if norm > 0 {
		c.Rec.Max("err_ratio_"+kname+"_f64", worst/norm)
	}
	if worst > c18Bound64*norm {
		d := detail()
		d["output_index"], d["f64"], d["dctii"], d["error_over_l1"] = wi, f[wi], ref[wi], worst/norm
		c.Rec.Violation("dctii64:"+kname, fmt.Sprintf("float64 %d-point kernel is off the DCT-II definition by %.3g*||x||_1 at output %d (bound 1e-12) [%s]", n, worst/norm, wi, family), d)
	}
	if norm > 0 {
		dec := int(math.Floor(math.Log10(norm/float64(n) + 1e-300)))
		c.Rec.Sig(fmt.Sprintf("%s/%s/decade%d/end=%v", kname, family, dec, atEnd))
	}
}

// dct256Weights: measured worst-case error of the 256-point float32 kernel per unit of input at
// index k (exhaustive over a third of all float32 mantissas per index): Lee's recursion divides
// by 2cos((i+0.5)pi/L), which is ~pi/L at the centre of each level. Indices not listed stay
// below the property's 1e-5 (worst 0.73e-5).
var dct256Weights = map[int]float64{127: 4e-5, 128: 4e-5, 63: 2e-5, 64: 2e-5, 191: 2e-5, 192: 2e-5, 126: 1.6e-5, 129: 1.6e-5, 95: 1.4e-5, 96: 1.4e-5, 159: 1.4e-5, 160: 1.4e-5}

// dct256WeightedL1 returns sum_k w_k |x_k| (w = 1e-5 off the listed indices) and the mass on the
// listed indices.
func dct256WeightedL1(x []float64) (allowed, centreMass float64) {
	for k, v := range x {
		a := math.Abs(v)
		if w, ok := dct256Weights[k]; ok {
			allowed += w * a
			centreMass += a
		} else {
			allowed += c18Bound32 * a
		}
	}
	return
}

var misGuards = map[[3]int]*mon.Guard{}

// misalignedGuard returns a cached guard whose operand is shifted by shift bytes from the flush
// position (so it is 4- but not 16/32-byte aligned).
func misalignedGuard(n int, atEnd bool, shift int) *mon.Guard {
	k := [3]int{n, shift, 0}
	if atEnd {
		k[2] = 1
	}
	if g, ok := misGuards[k]; ok {
		return g
	}
	g := mon.MustGuard(n, atEnd, shift)
	misGuards[k] = g
	return g
}

// check2D runs the 64x64 2-D kernel oracles.
func (e *C18) check2D(c *core.Ctx, x []float32, family string) {
	detail := func() map[string]any {
		return map[string]any{"kernel": "dct2dhash64", "family": family, "input_head": append([]float32(nil), x[:64]...)}
	}
	goIn := append([]float32(nil), x...)
	goOut := transforms32.VerifGoDCT2DHash64(goIn)
	g := guardsFor(4 * 4096).end // 16 KiB = 4 pages: flush against both guard pages
	e.seq++
	if e.seq%4 == 0 {
		g = misalignedGuard(4*4096, e.seq%8 == 0, 4*(1+(e.seq/4)%3))
	}
	op := g.Float32s()
	copy(op, x)
	guards := map[string]*mon.Guard{"input": g}
	var asmOut [64]float32
	ft := mon.CatchFault(func() { asmOut = transforms32.VerifAsmDCT2DHash64(op) })
	c.Rec.Eval(2)
	c.Rec.Count("guarded_asm_calls", 1)
	if ft.Faulted || ft.Panic {
		reportFault(c, ft, "assembly dct2dhash64", guards, detail())
		return
	}
	checkCanaries(c, "assembly dct2dhash64", guards, detail())
	if i := bitsEq32(asmOut[:], goOut[:]); i >= 0 {
		d := detail()
		d["lane"], d["asm"], d["go"] = i, asmOut[i], goOut[i]
		c.Rec.Violation(biteqKey(asmOut[:], goOut[:], "dct2dhash64"), fmt.Sprintf("assembly and portable 2-D kernels differ in output %d: asm %.9g go %.9g [%s]", i, asmOut[i], goOut[i], family), d)
	}
	if bitsEq32(op, goIn) < 0 {
		c.Rec.Count("dct2d_inplace_rows_equal", 1)
	}
	x64 := make([]float64, 4096)
	for i, v := range x {
		x64[i] = float64(v)
	}
	norm := l1(x64)
	ref := refDCT2DLow(x64, 64, 8)
	worst, wi := 0.0, 0
	for i := range ref {
		if d := math.Abs(float64(goOut[i]) - ref[i]); d > worst {
			worst, wi = d, i
		}
	}
	if norm > 0 {
		c.Rec.Max("err_ratio_dct2dhash64_f32", worst/norm)
	}
	if worst > c18Bound2D*norm && norm/4096 >= c18NormalRange {
		d := detail()
		d["output_index"], d["go"], d["dctii"], d["error_over_l1"] = wi, goOut[wi], ref[wi], worst/norm
		c.Rec.Violation("dctii:dct2dhash64", fmt.Sprintf("portable 2-D kernel is off the 2-D DCT-II by %.3g*||x||_1 at output %d (bound 2.5e-5) [%s]", worst/norm, wi, family), d)
	}
	// float64 2-D kernel (exported)
	f := append([]float64(nil), x64...)
	fOut := transforms.DCT2DHash64(&f)
	c.Rec.Eval(1)
	worst, wi = 0, 0
	for i := range ref {
		if d := math.Abs(fOut[i] - ref[i]); d > worst {
			worst, wi = d, i
		}
	}
	if norm > 0 {
		c.Rec.Max("err_ratio_dct2dhash64_f64", worst/norm)
	}
	if worst > 2.5*c18Bound64*norm {
		d := detail()
		d["output_index"], d["error_over_l1"] = wi, worst/norm
		c.Rec.Violation("dctii64:dct2dhash64", fmt.Sprintf("float64 2-D kernel is off the 2-D DCT-II by %.3g*||x||_1 at output %d [%s]", worst/norm, wi, family), d)
	}
	if norm > 0 {
		dec := int(math.Floor(math.Log10(norm/4096 + 1e-300)))
		c.Rec.Sig(fmt.Sprintf("dct2dhash64/%s/decade%d", family, dec))
	}
}

// c18NormalRange: below this mean magnitude the results are float32 subnormals (absolute
// spacing 1.4e-45), where a bound relative to ||x||_1 says nothing about float32 rounding; there
// only the bit-for-bit agreement of the kernels (and the guards) are asserted.
const c18NormalRange = 1e-30

// randVec draws one vector of a seeded family.
func c18RandVec(r *core.Rng, n int) ([]float32, string) {
	x := make([]float32, n)
	scale := math.Pow(10, float64(r.Range(-6, 6)))
	if r.Chance(1, 4) {
		scale = 1
	}
	if r.Chance(1, 10) {
		// gradual underflow: inputs, intermediates or outputs below the smallest normal float32
		scale = math.Pow(10, float64(r.Range(-45, -36)))
	}
	fam := ""
	switch r.Intn(6) {
	case 0:
		fam = "uniform"
		for i := range x {
			x[i] = float32((r.Float()*2 - 1) * scale)
		}
	case 1:
		fam = "normal"
		for i := range x {
			x[i] = float32(r.Norm() * scale)
		}
	case 2:
		fam = "pixels"
		ps := 1.0
		if scale < 1e-30 {
			ps = scale
		}
		for i := range x {
			x[i] = float32(float64(r.Intn(256)) * ps)
		}
	case 3:
		fam = "sparse"
		for k := r.Range(1, 5); k > 0; k-- {
			x[r.Intn(n)] = float32((r.Float()*2 - 1) * scale)
		}
	case 4:
		fam = "smooth"
		f1, p1 := r.Float()*4, r.Float()*6
		for i := range x {
			x[i] = float32((128 + 100*math.Sin(f1*float64(i)/float64(n)*2*math.Pi+p1)) * scale)
		}
	default:
		fam = "signs"
		for i := range x {
			v := scale
			if r.Bool() {
				v = -v
			}
			x[i] = float32(v)
		}
	}
	return x, fam
}

func c18EdgeVectors(n int) (out [][]float32, names []string) {
	add := func(name string, f func(i int) float64) {
		x := make([]float32, n)
		for i := range x {
			x[i] = float32(f(i))
		}
		out, names = append(out, x), append(names, name)
	}
	for _, s := range []float64{1, -1, 255, 1e-6, 1e6} {
		s := s
		add(fmt.Sprintf("const%g", s), func(i int) float64 { return s })
		add(fmt.Sprintf("alt%g", s), func(i int) float64 {
			if i%2 == 0 {
				return s
			}
			return -s
		})
		add(fmt.Sprintf("ramp%g", s), func(i int) float64 { return s * float64(i) })
		add(fmt.Sprintf("rampdown%g", s), func(i int) float64 { return s * float64(n-1-i) })
		add(fmt.Sprintf("step%g", s), func(i int) float64 {
			if i < n/2 {
				return 0
			}
			return s
		})
		add(fmt.Sprintf("ends%g", s), func(i int) float64 {
			if i == 0 || i == n-1 {
				return s
			}
			return 0
		})
		add(fmt.Sprintf("centre%g", s), func(i int) float64 {
			if i == n/2-1 {
				return s
			}
			if i == n/2 {
				return -s
			}
			return 0
		})
		add(fmt.Sprintf("bigamongsmall%g", s), func(i int) float64 {
			if i == n/3 {
				return s * 1e4
			}
			return s * 1e-3
		})
	}
	negz := math.Copysign(0, -1)
	add("negzero", func(i int) float64 { return negz })
	add("negzero-firsthalf", func(i int) float64 {
		if i < n/2 {
			return negz
		}
		return 0
	})
	add("negzero-alternating", func(i int) float64 {
		if i%2 == 0 {
			return negz
		}
		return 0
	})
	add("negzero-sparse", func(i int) float64 {
		if i%7 == 3 {
			return 1
		}
		if i%3 == 0 {
			return negz
		}
		return 0
	})
	// gradual underflow (a kernel that flushes subnormals to zero differs from one that does not)
	for _, s := range []float64{1e-40, 1.4e-45, 3e-39, 1.1754942e-38} {
		s := s
		add(fmt.Sprintf("subnormal-const%g", s), func(i int) float64 { return s })
		add(fmt.Sprintf("subnormal-alt%g", s), func(i int) float64 {
			if i%2 == 0 {
				return s
			}
			return -s
		})
		add(fmt.Sprintf("subnormal-ramp%g", s), func(i int) float64 { return s * float64(i) / float64(n) })
		add(fmt.Sprintf("subnormal-impulse%g", s), func(i int) float64 {
			if i == n/5 {
				return s
			}
			return 0
		})
	}
	add("near-min-normal", func(i int) float64 { return 2e-38 + float64(i%7)*3e-42 }) // normal entries, subnormal differences
	add("normal-among-subnormal", func(i int) float64 {
		if i%9 == 4 {
			return 5e-37
		}
		return 7e-41 * float64(i%5)
	})
	add("pixels-scaled-2^-140", func(i int) float64 { return float64((i*37)%256) * math.Ldexp(1, -140) })
	// infinities (a saturated sensor value converted carelessly, a division upstream): Inf - Inf
	// is NaN in every kernel alike; a kernel that skips an operation "because the operands are
	// equal" is not the same function
	inf := math.Inf(1)
	add("inf-flat", func(i int) float64 { return inf })
	add("inf-one", func(i int) float64 {
		if i == 5 {
			return inf
		}
		return float64(i % 7)
	})
	for _, pos := range [][2]int{{3, n - 4}, {3, 60}, {10, 53}, {0, n - 1}, {31, 32}, {n/2 - 1, n / 2}} {
		pos := pos
		add(fmt.Sprintf("inf-pair-%d-%d", pos[0], pos[1]), func(i int) float64 {
			if i == pos[0] || i == pos[1] {
				return inf
			}
			return float64((i * 37) % 256)
		})
		add(fmt.Sprintf("neginf-pair-%d-%d", pos[0], pos[1]), func(i int) float64 {
			if i == pos[0] || i == pos[1] {
				return -inf
			}
			return float64((i * 37) % 256)
		})
		add(fmt.Sprintf("inf-opposite-%d-%d", pos[0], pos[1]), func(i int) float64 {
			if i == pos[0] {
				return inf
			}
			if i == pos[1] {
				return -inf
			}
			return 1
		})
	}
	add("zero", func(i int) float64 { return 0 })
	add("max255", func(i int) float64 { return 255 })
	add("checker8", func(i int) float64 {
		if (i/8)%2 == 0 {
			return 255
		}
		return 0
	})
	return
}

func (e *C18) Run(c *core.Ctx, idx int) {
	p := c18Plan(c.Tier)
	r := c.Rng(idx)
	if idx == 0 {
		e.selfTest(c)
		return
	}
	idx--
	if idx < p.imp64 {
		for si, s := range c18Scales {
			x := make([]float32, 64)
			x[idx] = float32(s)
			e.check1D(c, x, "impulse", (idx+si)%2 == 0)
		}
		c.Rec.Count("impulses_64", 1)
		return
	}
	idx -= p.imp64
	if idx < p.imp256 {
		for si, s := range c18Scales {
			x := make([]float32, 256)
			x[idx] = float32(s)
			e.check1D(c, x, "impulse", (idx+si)%2 == 0)
		}
		c.Rec.Count("impulses_256", 1)
		return
	}
	idx -= p.imp256
	if idx < p.imp2d {
		for k := 0; k < 64; k++ {
			x := make([]float32, 4096)
			x[idx*64+k] = float32(c18Scales[(idx+k)%len(c18Scales)])
			e.check2D(c, x, "impulse")
			c.Rec.Count("impulses_2d", 1)
		}
		return
	}
	idx -= p.imp2d
	if idx < p.edge {
		n := 64
		if idx == 1 {
			n = 256
		}
		vs, names := c18EdgeVectors(n)
		for i, x := range vs {
			e.check1D(c, x, "edge:"+names[i], true)
			e.check1D(c, x, "edge:"+names[i], false)
		}
		if n == 64 {
			// the same shapes as 64x64 inputs (rows, columns, outer products)
			for i, x := range vs {
				in := make([]float32, 4096)
				for y := 0; y < 64; y++ {
					for xx := 0; xx < 64; xx++ {
						switch i % 3 {
						case 0:
							in[y*64+xx] = x[xx]
						case 1:
							in[y*64+xx] = x[y]
						default:
							in[y*64+xx] = x[xx] * float32(y%3)
						}
					}
				}
				e.check2D(c, in, "edge:"+names[i])
			}
		}
		return
	}
	idx -= p.edge
	if idx < p.rnd64 {
		for k := 0; k < c18BatchSize; k++ {
			x, fam := c18RandVec(r, 64)
			e.check1D(c, x, fam, k%2 == 0)
		}
		return
	}
	idx -= p.rnd64
	if idx < p.rnd256 {
		for k := 0; k < c18BatchSize; k++ {
			x, fam := c18RandVec(r, 256)
			e.check1D(c, x, fam, k%2 == 0)
		}
		return
	}
	idx -= p.rnd256
	if idx < p.rnd2d {
		x, fam := c18RandVec(r, 4096)
		if r.Chance(1, 3) {
			// image-like: luminance of a generated image
			sp := gen.ImgSpec{Kind: "gray", W: 64, H: 64, Content: gen.ImgContents[r.Intn(len(gen.ImgContents))]}
			img := gen.MakeImage(r, sp)
			transforms32.ImageToGray(img, &x)
			fam = "image:" + sp.Content
		}
		e.check2D(c, x, fam)
		return
	}
	idx -= p.rnd2d
	e.dispatch(c, r)
}

// selfTest shows that the sanitizer actually observes an out-of-operand access: a 64-float
// view over a 63-float operand flush against the trailing guard page must fault in the assembly.
func (e *C18) selfTest(c *core.Ctx) {
	g := mon.MustGuard(63*4, true, 0)
	defer g.Free()
	b := g.Bytes()
	over := unsafe.Slice((*float32)(unsafe.Pointer(&b[0])), 64) // last element lies in the guard page
	ft := mon.CatchFault(func() { transforms32.VerifAsmDCT64(over) })
	if ft.Faulted {
		c.Rec.Count("guard_selftest_faults_seen", 1)
		c.Rec.Sig("selftest/guard-fault-observed")
	} else {
		c.Rec.Inconcl("guard-page self-test: an over-long operand did not fault; the sanitizer is blind on this machine")
	}
	// and a store into the slack must be seen by the canary check
	g2 := mon.MustGuard(64, false, 0)
	defer g2.Free()
	*(*byte)(unsafe.Add(unsafe.Pointer(&g2.Bytes()[0]), 64)) = 0 // one byte past the operand, inside the accessible slack
	if ok, at := g2.CanaryIntact(); ok || at != 64 {
		c.Rec.Inconcl("canary self-test failed")
	} else {
		c.Rec.Count("canary_selftest_seen", 1)
	}
}

func (e *C18) setKernels(asm bool) {
	if asm {
		transforms32.FlagUseASM = true
		transforms32.ForwardDCT64 = transforms32.VerifAsmDCT64
		transforms32.ForwardDCT256 = transforms32.VerifAsmDCT256
	} else {
		transforms32.FlagUseASM = false
		transforms32.ForwardDCT64 = transforms32.VerifGoDCT64
		transforms32.ForwardDCT256 = transforms32.VerifGoDCT256
	}
}

func (e *C18) restoreKernels() {
	transforms32.FlagUseASM, transforms32.ForwardDCT64, transforms32.ForwardDCT256, transforms32.YCbCrToGray = e.origFlag, e.origF64, e.origF256, e.origGray
}

// dispatch: the exported 2-D entry points and the hashes must not depend on the kernel selection.
func (e *C18) dispatch(c *core.Ctx, r *core.Rng) {
	defer e.restoreKernels()
	// DCT2DHash64
	x, fam := c18RandVec(r, 4096)
	e.setKernels(true)
	a := transforms32.DCT2DHash64(append([]float32(nil), x...))
	e.setKernels(false)
	b := transforms32.DCT2DHash64(append([]float32(nil), x...))
	c.Rec.Eval(2)
	if i := bitsEq32(a[:], b[:]); i >= 0 {
		c.Rec.Violation(biteqKey(a[:], b[:], "dispatch-dct2dhash64"), fmt.Sprintf("DCT2DHash64 differs between FlagUseASM on and off in output %d (%.9g vs %.9g) [%s]", i, a[i], b[i], fam), map[string]any{"input_head": x[:64]})
	}
	// DCT2DHash256 (portable 2-D loop over the selected 256-point kernel)
	if r.Chance(1, 3) {
		y, fam2 := c18RandVec(r, 65536)
		y1 := append([]float32(nil), y...)
		y2 := append([]float32(nil), y...)
		e.setKernels(true)
		a2 := transforms32.DCT2DHash256(&y1)
		e.setKernels(false)
		b2 := transforms32.DCT2DHash256(&y2)
		c.Rec.Eval(2)
		if i := bitsEq32(a2[:], b2[:]); i >= 0 {
			c.Rec.Violation(biteqKey(a2[:], b2[:], "dispatch-dct2dhash256"), fmt.Sprintf("DCT2DHash256 differs between the assembly and portable 256-point kernels in output %d [%s]", i, fam2), map[string]any{"input_head": y[:64]})
		}
		c.Rec.Sig("dispatch/dct2dhash256/" + fam2)
	}
	// hashes of non-YCbCr images (the gray conversion is then the same code either way)
	kind := r.PickStr("rgba", "nrgba", "gray")
	sz := 64
	if r.Chance(1, 4) {
		sz = 256
	}
	sp := gen.ImgSpec{Kind: kind, W: sz, H: sz, Content: gen.ImgContents[r.Intn(len(gen.ImgContents))]}
	img := gen.MakeImage(r, sp)
	var h1, h2 string
	hash := func() string {
		if sz == 64 {
			h, err := imagehash.NewPHash64Alt(img)
			return fmt.Sprintf("%016x/%v", uint64(h), err)
		}
		h, err := imagehash.NewPHash256Alt(img)
		return fmt.Sprintf("%016x%016x%016x%016x/%v", h[0], h[1], h[2], h[3], err)
	}
	e.setKernels(true)
	h1 = hash()
	e.setKernels(false)
	h2 = hash()
	c.Rec.Eval(2)
	if h1 != h2 {
		c.Rec.Violation("dispatch:hash", fmt.Sprintf("hash of a %dx%d %s image depends on the kernel selection: asm %s, portable %s", sz, sz, sp, h1, h2), map[string]any{"spec": sp.String()})
	}
	c.Rec.Sig(fmt.Sprintf("dispatch/hash%d/%s", sz, sp))
	c.Rec.Sig("dispatch/dct2dhash64/" + fam)
	// an argument shorter than the transform: the exported kernels (as the package selected them)
	// may refuse it (a Go panic is a refusal), they must not touch what lies behind it
	e.restoreKernels()
	for _, k := range []struct {
		name string
		n    int
		f    func([]float32)
	}{{"ForwardDCT64", 64, e.origF64}, {"ForwardDCT256", 256, e.origF256}} {
		short := r.Pick(0, 1, k.n/2, k.n-1)
		g := mon.MustGuard(4*short+4, true, 0) // one float of slack in front of the guard page would hide a 4-byte overrun: the operand ends at the page
		op := g.Float32s()[1:]
		for i := range op {
			op[i] = float32(i)
		}
		canaryBefore, _ := g.CanaryIntact()
		ft := mon.CatchFault(func() { k.f(op) })
		c.Rec.Eval(1)
		c.Rec.Count("short_operand_calls", 1)
		if ft.Faulted {
			c.Rec.Violation("short:"+k.name, fmt.Sprintf("%s on a slice of %d floats (flush against a PROT_NONE page) accessed memory behind its argument", k.name, short), map[string]any{"kernel": k.name, "len": short, "fault": ft.Text})
		} else if ok, _ := g.CanaryIntact(); canaryBefore && !ok {
			c.Rec.Violation("short:"+k.name, fmt.Sprintf("%s on a slice of %d floats wrote outside its argument (canary changed)", k.name, short), map[string]any{"kernel": k.name, "len": short})
		}
		g.Free()
		// the same with spare capacity behind the short slice (a sub-slice of a larger or pooled
		// buffer): a slice expression would extend it silently - what lies behind its length is not
		// the argument either
		// (the backing array lies in a guarded region of its own, not on the Go heap: a kernel
		// that overruns even the spare capacity faults on the guard page instead of corrupting the
		// worker's heap)
		g2 := mon.MustGuard(4*2*k.n, true, 0)
		back := g2.Float32s()
		for i := range back {
			back[i] = float32(1000 + i)
		}
		ft = mon.CatchFault(func() { k.f(back[:short]) })
		c.Rec.Eval(1)
		c.Rec.Count("short_operand_calls", 1)
		if ft.Faulted {
			c.Rec.Violation("short:cap:"+k.name, fmt.Sprintf("%s on a slice of %d floats with capacity %d accessed memory behind the backing array", k.name, short, len(back)), map[string]any{"kernel": k.name, "len": short, "cap": len(back), "fault": ft.Text})
		}
		defer g2.Free()
		for i := short; i < len(back) && !ft.Faulted; i++ {
			if back[i] != float32(1000+i) {
				c.Rec.Violation("short:cap:"+k.name, fmt.Sprintf("%s on a slice of %d floats with capacity %d wrote element %d, outside its argument (%v -> %v)", k.name, short, len(back), i, float32(1000+i), back[i]), map[string]any{"kernel": k.name, "len": short, "cap": len(back), "index": i})
				break
			}
		}
	}
}
