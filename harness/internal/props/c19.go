package props

import (
	"fmt"
	"image"
	"image/color"
	"math"
	"math/bits"
	"runtime"

	"github.com/evanoberholster/imagemeta/imagehash"
	"github.com/evanoberholster/imagemeta/imagehash/transforms"
	"github.com/evanoberholster/imagemeta/imagehash/transforms32"

	"verif/harness/internal/core"
	"verif/harness/internal/gen"
)

// C19 — a perceptual hash is its defined function of the pixels; wrong sizes rejected.
type C19 struct{}

func (e *C19) ID() string    { return "C19" }
func (e *C19) Level() string { return "exploration" }
func (e *C19) Rule() string {
	return "section A (accepted images; each case under a GOMAXPROCS drawn from {1,2,3,4,5,6,7,12,16,24,31,33} - the number of CPUs is not an input of the hash): seeded 64x64 and 256x256 images of kind RGBA (opaque, and premultiplied with varying alpha and fully transparent blocks), NRGBA (opaque and with alpha, fully transparent blocks included), an image type that is a struct value rather than a pointer, Gray, YCbCr 4:4:4, contents gradient/noise/constant/checker/single pixel/0-255 extremes/synthetic photo/repository photographs resized by the harness's box filter; each is hashed by the primary and the alternative function, twice, then again after the pixel pools were poisoned (NaN, 1e30, another image's values), and again as the same pixels at origins (1,1), (8,8), (-5,3) and as SubImage views with stride > width. Oracle: L = the luminance the library converts (exported Rgb2GrayFast / ImageToGray into harness buffers), itself checked against 0.299R+0.587G+0.114B of the pixel values for RGBA/NRGBA/Gray; c = low 8x8 / 16x16 block of an independent float64 2-D DCT-II of L in row-major frequency order; every c_i >= upper median + tau must have its bit (MSB first) set, every c_i <= lower median - tau must have it clear, set bits must form an upper set of c up to 2 tau; primary and alternative may differ only on bits with |c_i - median| <= 2(tau32+tau64+sum|L64-L32|); repeated, poisoned-pool and shifted-origin calls must return the identical hash. tau32 = data-dependent float32 kernel bound (2.5e-5*||L||_1 for 64; per-index weights of the 256-point kernel for 256), tau64 = 1e-9*||L||_1. Section B (rejection, exhaustive lattice): every (w,h) in [0,70]^2 except (64,64), every (w,h) in [250,260]^2 except (256,256), further sizes up to 512, and nil, for all four functions, image kinds cycled, also at non-zero origins and with poisoned pools: the call must return a non-nil error (no hash, no panic). Section C: Distance on random and edge hashes: d(a,a)=0, symmetry, popcount(a^b), triangle inequality. Non-trivial: an accepted image with non-constant luminance, or a rejected size; distinct = distinct (kind, content, size, variant) / (w,h,function)."
}
func (e *C19) Assumptions() []string {
	return []string{
		"the luminance buffer the oracle reads is produced by the same exported conversion functions the hash functions call (checked separately against the luminance formula for RGBA/NRGBA/Gray)",
		"a typed nil pointer inside a non-nil image.Image is a caller error and is not passed; nil means the nil interface",
		"tau32 uses the float32 kernel error weights measured by C18 (which checks them on every run)",
	}
}
func (e *C19) MinNontrivial(tier string) int { return 100 }
func (e *C19) Exhaustive(tier string) bool   { return false }

var c19Contents = []string{"gradient", "noise", "constant", "checker", "pixel", "extreme", "photo", "asset", "asset"}
var c19Kinds = []string{"rgba", "nrgba", "nrgba-alpha", "gray", "ycbcr444", "rgba-alpha", "rgba-value"}

type c19plan struct{ imgs, lattice, big, extra, dist int }

func c19Plan(tier string) c19plan {
	p := c19plan{imgs: 1200, lattice: 71, big: 11, extra: 1, dist: 20}
	if tier == "thorough" {
		p.imgs, p.dist = 90000, 1200
	}
	return p
}
func (p c19plan) total() int { return p.imgs + p.lattice + p.big + p.extra + p.dist }

func (e *C19) Plan(tier string, seed uint64) int { return c19Plan(tier).total() }

func (e *C19) InitWorker(c *core.Ctx) { imagehash.VerifResetPools() }

type c19hash struct {
	words []uint64
	err   error
}

func (h c19hash) String() string {
	s := ""
	for _, w := range h.words {
		s += fmt.Sprintf("%016x", w)
	}
	if h.err != nil {
		s += " err=" + h.err.Error()
	}
	return s
}

func (h c19hash) eq(o c19hash) bool {
	if (h.err == nil) != (o.err == nil) || len(h.words) != len(o.words) {
		return false
	}
	for i := range h.words {
		if h.words[i] != o.words[i] {
			return false
		}
	}
	return true
}

// c19call runs one of the four hash functions under a panic guard.
func c19call(fn int, img image.Image) (h c19hash, panicked bool, ptext string) {
	panicked, _, ptext = core.Guard(func() {
		switch fn {
		case 0:
			v, err := imagehash.NewPHash64(img)
			h = c19hash{[]uint64{uint64(v)}, err}
		case 1:
			v, err := imagehash.NewPHash64Alt(img)
			h = c19hash{[]uint64{uint64(v)}, err}
		case 2:
			v, err := imagehash.NewPHash256(img)
			h = c19hash{v[:], err}
		default:
			v, err := imagehash.NewPHash256Alt(img)
			h = c19hash{v[:], err}
		}
	})
	return
}

var c19FnNames = []string{"NewPHash64", "NewPHash64Alt", "NewPHash256", "NewPHash256Alt"}

func c19Poison(k int) {
	switch k {
	case 0:
		imagehash.VerifPoisonPools(func(i int) float64 { return math.NaN() }, func(i int) float32 { return float32(math.NaN()) })
	case 1:
		imagehash.VerifPoisonPools(func(i int) float64 { return 1e30 }, func(i int) float32 { return 1e30 })
	default:
		imagehash.VerifPoisonPools(func(i int) float64 { return float64((i * 7919) % 256) }, func(i int) float32 { return float32((i * 7919) % 256) })
	}
}

func c19Spec(kind, content string, s, ox, oy int, sub bool) gen.ImgSpec {
	sp := gen.ImgSpec{Kind: kind, W: s, H: s, OX: ox, OY: oy, Sub: sub, Content: content}
	if kind == "nrgba-alpha" {
		sp.Kind, sp.Alpha = "nrgba", true
	}
	if kind == "rgba-alpha" {
		sp.Kind, sp.Alpha = "rgba", true
	}
	return sp
}

// tau32For computes the float32 margin of the alternative path for luminance lum (s x s).
func tau32For(lum []float64, rows []float64, s, b int) float64 {
	if s == 64 {
		return 2.5e-5 * l1(lum)
	}
	eRow := 0.0
	for y := 0; y < s; y++ {
		a, _ := dct256WeightedL1(lum[y*s : (y+1)*s])
		eRow += a
	}
	eCol := 0.0
	col := make([]float64, s)
	for u := 0; u < b; u++ {
		for y := 0; y < s; y++ {
			col[y] = rows[y*b+u]
		}
		if a, _ := dct256WeightedL1(col); a > eCol {
			eCol = a
		}
	}
	return 1.25 * (eRow + eCol)
}

func median2(c []float64) (lm, um float64) {
	s := append([]float64(nil), c...)
	sortFloats(s)
	return s[len(s)/2-1], s[len(s)/2]
}

func sortFloats(s []float64) {
	// insertion sort is fine for 64/256 values and keeps the oracle free of library code
	for i := 1; i < len(s); i++ {
		v := s[i]
		j := i - 1
		for j >= 0 && s[j] > v {
			s[j+1] = s[j]
			j--
		}
		s[j+1] = v
	}
}

func (e *C19) runImage(c *core.Ctx, idx int) {
	r := c.Rng(idx)
	kind := c19Kinds[idx%len(c19Kinds)]
	content := c19Contents[r.Intn(len(c19Contents))]
	s, b := 64, 8
	if r.Chance(1, 4) {
		s, b = 256, 16
	}
	fnP, fnA := 0, 1
	if s == 256 {
		fnP, fnA = 2, 3
	}
	cseed := r.U64()
	build := func(ox, oy int, sub bool) image.Image {
		if kind == "rgba-value" {
			// an image.Image implemented by a struct value (not a pointer), as image.Rectangle or a
			// by-value wrapper is: it reaches the hash functions through the generic path
			return c19ValueImage{gen.MakeImage(core.NewRng(cseed), c19Spec("rgba", content, s, ox, oy, sub))}
		}
		return gen.MakeImage(core.NewRng(cseed), c19Spec(kind, content, s, ox, oy, sub))
	}
	what := fmt.Sprintf("%s/%s %dx%d", kind, content, s, s)
	viol := func(key, msg string, d map[string]any) {
		if d == nil {
			d = map[string]any{}
		}
		d["kind"], d["content"], d["size"], d["content_seed"] = kind, content, s, cseed
		c.Rec.Violation(key, what+": "+msg, d)
	}
	imagehash.VerifResetPools()
	img := build(0, 0, false)

	// luminance as the library converts it
	l64 := make([]float64, s*s)
	l32 := make([]float32, s*s)
	if p, _, t := core.Guard(func() { transforms.Rgb2GrayFast(img, &l64); transforms32.ImageToGray(img, &l32) }); p {
		viol("panic:gray", "gray conversion panicked: "+firstLineOf(t), map[string]any{"panic": t})
		return
	}
	c.Rec.Eval(2)
	lA := make([]float64, s*s)
	dL := 0.0
	for i, v := range l32 {
		lA[i] = float64(v)
		dL += math.Abs(lA[i] - l64[i])
	}
	if yc, ok := img.(*image.YCbCr); ok && kind == "ycbcr444" {
		// the luminance of a YCbCr image is the portable, unclamped conversion (C20's reference) in
		// both converters, also where the colour is outside the RGB gamut
		bd := img.Bounds()
		for y := 0; y < s; y++ {
			for x := 0; x < s; x++ {
				ref := c20Ref(yc, bd.Min.X+x, bd.Min.Y+y)
				if d := math.Abs(l64[y*s+x] - ref); d > 2.0 {
					viol("gray:ycbcr64", fmt.Sprintf("Rgb2GrayFast pixel (%d,%d) = %.6g, portable YCbCr conversion = %.6g", x, y, l64[y*s+x], ref), nil)
					return
				}
				if d := math.Abs(lA[y*s+x] - ref); d > 2.0 {
					viol("gray:ycbcr32", fmt.Sprintf("ImageToGray pixel (%d,%d) = %.6g, portable YCbCr conversion = %.6g", x, y, lA[y*s+x], ref), nil)
					return
				}
			}
		}
	}
	// the conversion itself, for the kinds whose pixel values are RGB
	if kind != "ycbcr444" {
		tol := 1e-3
		if kind == "nrgba-alpha" {
			tol = 1.0 + 1e-3
		}
		bd := img.Bounds()
		for y := 0; y < s; y++ {
			for x := 0; x < s; x++ {
				cr, cg, cb, _ := img.At(bd.Min.X+x, bd.Min.Y+y).RGBA()
				ref := 0.299*float64(cr)/257 + 0.587*float64(cg)/257 + 0.114*float64(cb)/257
				if d := math.Abs(l64[y*s+x] - ref); d > tol {
					viol("gray:formula64", fmt.Sprintf("Rgb2GrayFast pixel (%d,%d) = %.6g, 0.299R+0.587G+0.114B = %.6g", x, y, l64[y*s+x], ref), nil)
					return
				}
				if d := math.Abs(lA[y*s+x] - ref); d > tol {
					viol("gray:formula32", fmt.Sprintf("ImageToGray pixel (%d,%d) = %.6g, 0.299R+0.587G+0.114B = %.6g", x, y, lA[y*s+x], ref), nil)
					return
				}
			}
		}
	}
	c64, rows64 := refDCT2DLowRows(l64, s, b)
	c32, rows32 := refDCT2DLowRows(lA, s, b)
	_ = rows64
	tau64 := 1e-9 * l1(l64)
	tau32 := tau32For(lA, rows32, s, b)

	hp, pp, pt := c19call(fnP, img)
	ha, pa, at := c19call(fnA, img)
	c.Rec.Eval(2)
	if pp || pa {
		viol("panic:hash", "hash function panicked on an image of the required size: "+firstLineOf(pt+at), map[string]any{"panic": pt + at})
		return
	}
	if hp.err != nil || ha.err != nil {
		viol("hash:rejected-valid", fmt.Sprintf("image of the required size rejected: primary err=%v alt err=%v", hp.err, ha.err), nil)
		return
	}
	bp, ba := hashBits(hp.words), hashBits(ha.words)
	if v := checkHashAgainstCoeffs(bp, c64, tau64); v != nil {
		viol(v.Key+":"+c19FnNames[fnP], c19FnNames[fnP]+": "+v.Msg, map[string]any{"hash": hp.String()})
	}
	if v := checkHashAgainstCoeffs(ba, c32, tau32); v != nil {
		viol(v.Key+":"+c19FnNames[fnA], c19FnNames[fnA]+": "+v.Msg, map[string]any{"hash": ha.String(), "tau32": tau32})
	}
	// primary vs alternative
	lm, um := median2(c64)
	med := (lm + um) / 2
	margin := 2 * (tau32 + tau64 + dL)
	diff := 0
	for i := range bp {
		if bp[i] != ba[i] {
			diff++
			if math.Abs(c64[i]-med) > margin && math.Abs(c64[i]-lm) > margin && math.Abs(c64[i]-um) > margin {
				viol("hash:primary-vs-alt", fmt.Sprintf("primary and alternative differ on bit %d whose coefficient %.9g is %.3g away from the median %.9g (margin %.3g)", i, c64[i], math.Abs(c64[i]-med), med, margin), map[string]any{"primary": hp.String(), "alt": ha.String()})
				break
			}
		}
	}
	c.Rec.Count("primary_alt_bits_compared", int64(len(bp)))
	c.Rec.Count("primary_alt_bits_differing_within_margin", int64(diff))
	// repeated calls
	for fn, h0 := range map[int]c19hash{fnP: hp, fnA: ha} {
		h1, p1, _ := c19call(fn, img)
		c.Rec.Eval(1)
		if p1 || !h1.eq(h0) {
			viol("hash:repeat:"+c19FnNames[fn], fmt.Sprintf("%s: second call on the same image returned %s, first %s", c19FnNames[fn], h1, h0), nil)
		}
	}
	// history: poisoned pools
	for k := 0; k < 3; k++ {
		c19Poison(k)
		for fn, h0 := range map[int]c19hash{fnP: hp, fnA: ha} {
			h1, p1, t1 := c19call(fn, img)
			c.Rec.Eval(1)
			if p1 || !h1.eq(h0) {
				viol("hash:history:"+c19FnNames[fn], fmt.Sprintf("%s: with pool buffers left in state %d by earlier images the hash is %s, pristine %s %s", c19FnNames[fn], k, h1, h0, firstLineOf(t1)), nil)
			}
		}
	}
	imagehash.VerifResetPools()
	// the same pixels elsewhere
	type variant struct {
		ox, oy int
		sub    bool
	}
	vars := []variant{{1, 1, false}, {8, 8, false}, {-5, 3, false}, {0, 0, true}, {8, 8, true}, {-5, 3, true}}
	nv := 2
	if c.Thorough() || s == 64 {
		nv = len(vars)
	}
	for _, vi := range r.Perm(len(vars))[:nv] {
		v := vars[vi]
		im2 := build(v.ox, v.oy, v.sub)
		for fn, h0 := range map[int]c19hash{fnP: hp, fnA: ha} {
			h1, p1, t1 := c19call(fn, im2)
			c.Rec.Eval(1)
			if p1 {
				viol("panic:origin:"+c19FnNames[fn], fmt.Sprintf("%s panicked on the same pixels at origin (%d,%d) sub=%v: %s", c19FnNames[fn], v.ox, v.oy, v.sub, firstLineOf(t1)), map[string]any{"panic": t1})
				continue
			}
			if kind == "ycbcr444" && fn == fnA {
				// the alternative path may convert through the assembly at one placement and through
				// the portable loop at another (C20 bounds that difference): judge by the oracle
				if h1.err != nil {
					viol("hash:origin:"+c19FnNames[fn], fmt.Sprintf("%s rejected the same pixels at origin (%d,%d) sub=%v: %v", c19FnNames[fn], v.ox, v.oy, v.sub, h1.err), nil)
					continue
				}
				l2 := make([]float32, s*s)
				transforms32.ImageToGray(im2, &l2)
				l2f := make([]float64, s*s)
				for i, x := range l2 {
					l2f[i] = float64(x)
				}
				c2, rows2 := refDCT2DLowRows(l2f, s, b)
				if vd := checkHashAgainstCoeffs(hashBits(h1.words), c2, tau32For(l2f, rows2, s, b)); vd != nil {
					viol(vd.Key+":origin:"+c19FnNames[fn], fmt.Sprintf("%s at origin (%d,%d) sub=%v: %s", c19FnNames[fn], v.ox, v.oy, v.sub, vd.Msg), nil)
				}
				continue
			}
			if !h1.eq(h0) {
				viol("hash:origin:"+c19FnNames[fn], fmt.Sprintf("%s: the same pixels at origin (%d,%d) sub=%v hash to %s, at the origin to %s", c19FnNames[fn], v.ox, v.oy, v.sub, h1, h0), nil)
			}
		}
		c.Rec.Sig(fmt.Sprintf("img/%s/%s/%d/origin(%d,%d)sub=%v", kind, content, s, v.ox, v.oy, v.sub))
	}
	if um-lm > 0 || content != "constant" {
		c.Rec.Sig(fmt.Sprintf("img/%s/%s/%d", kind, content, s))
	}
	if c.Rec.WantSample() {
		c.Rec.Sample(map[string]any{"image": what, "primary": hp.String(), "alt": ha.String(), "upper_median": um, "tau32": tau32, "tau64": tau64, "bits_differing": diff})
	}
}

// reject: all four functions must return an error for img.
func (e *C19) reject(c *core.Ctx, img image.Image, what string, skipFn map[int]bool) {
	for round := 0; round < 2; round++ {
		if round == 1 {
			c19Poison(c.Rec.Index % 3)
		}
		for fn := 0; fn < 4; fn++ {
			if skipFn[fn] {
				continue
			}
			h, p, t := c19call(fn, img)
			c.Rec.Eval(1)
			c.Rec.Count("rejection_calls", 1)
			if p {
				c.Rec.Violation("reject:panic:"+c19FnNames[fn], fmt.Sprintf("%s panicked on %s instead of returning an error: %s", c19FnNames[fn], what, firstLineOf(t)), map[string]any{"panic": t, "poisoned": round == 1})
			} else if h.err == nil {
				c.Rec.Violation("reject:accepted:"+c19FnNames[fn], fmt.Sprintf("%s accepted %s and returned hash %s", c19FnNames[fn], what, h), map[string]any{"poisoned": round == 1})
			}
		}
	}
	imagehash.VerifResetPools()
}

var c19RejectKinds = []string{"rgba", "gray", "ycbcr444", "nrgba", "ycbcr420"}

func c19SizedImage(w, h, k int) (image.Image, string) {
	kind := c19RejectKinds[k%len(c19RejectKinds)]
	ox, oy := 0, 0
	if k%7 == 3 {
		ox, oy = 5, -3
	}
	rect := image.Rect(ox, oy, ox+w, oy+h)
	var img image.Image
	switch kind {
	case "rgba":
		im := image.NewRGBA(rect)
		for i := range im.Pix {
			im.Pix[i] = uint8(i*31 + 7)
		}
		img = im
	case "gray":
		im := image.NewGray(rect)
		for i := range im.Pix {
			im.Pix[i] = uint8(i*13 + 1)
		}
		img = im
	case "nrgba":
		im := image.NewNRGBA(rect)
		for i := range im.Pix {
			im.Pix[i] = uint8(i*17 + 3)
		}
		img = im
	case "ycbcr420":
		im := image.NewYCbCr(rect, image.YCbCrSubsampleRatio420)
		for i := range im.Y {
			im.Y[i] = uint8(i * 5)
		}
		img = im
	default:
		im := image.NewYCbCr(rect, image.YCbCrSubsampleRatio444)
		for i := range im.Y {
			im.Y[i] = uint8(i * 3)
		}
		img = im
	}
	return img, fmt.Sprintf("a %dx%d %s image at (%d,%d)", w, h, kind, ox, oy)
}

// c19Procs: the number of CPUs the hash functions may use is not an input of the hash.
var c19Procs = []int{1, 2, 3, 4, 5, 6, 7, 12, 16, 24, 31, 33}

func (e *C19) Run(c *core.Ctx, idx int) {
	p := c19Plan(c.Tier)
	if idx < p.imgs {
		old := runtime.GOMAXPROCS(c19Procs[idx%len(c19Procs)])
		defer runtime.GOMAXPROCS(old)
		e.runImage(c, idx)
		return
	}
	idx -= p.imgs
	if idx < p.lattice {
		w := idx
		for h := 0; h <= 70; h++ {
			img, what := c19SizedImage(w, h, w*71+h)
			skip := map[int]bool{}
			if w == 64 && h == 64 {
				skip[0], skip[1] = true, true // the required size of the 64-bit functions
			}
			e.reject(c, img, what, skip)
			c.Rec.Sig(fmt.Sprintf("reject/%dx%d", w, h))
		}
		return
	}
	idx -= p.lattice
	if idx < p.big {
		w := 250 + idx
		for h := 250; h <= 260; h++ {
			img, what := c19SizedImage(w, h, w*11+h)
			skip := map[int]bool{}
			if w == 256 && h == 256 {
				skip[2], skip[3] = true, true
			}
			e.reject(c, img, what, skip)
			c.Rec.Sig(fmt.Sprintf("reject/%dx%d", w, h))
		}
		return
	}
	idx -= p.big
	if idx < p.extra {
		for k, sz := range [][2]int{{128, 128}, {255, 255}, {256, 255}, {255, 256}, {257, 257}, {64, 256}, {256, 64}, {512, 512}, {32, 32}, {64, 10}, {10, 64}, {65, 65}, {63, 63}, {4096, 1}, {1, 4096}, {128, 32}} {
			img, what := c19SizedImage(sz[0], sz[1], k)
			e.reject(c, img, what, nil)
			c.Rec.Sig(fmt.Sprintf("reject/%dx%d", sz[0], sz[1]))
		}
		e.reject(c, nil, "a nil image", nil)
		c.Rec.Sig("reject/nil")
		return
	}
	idx -= p.extra
	e.distances(c, c.Rng(idx+1<<20))
}

func (e *C19) distances(c *core.Ctx, r *core.Rng) {
	pick64 := func() uint64 {
		switch r.Intn(6) {
		case 0:
			return 0
		case 1:
			return ^uint64(0)
		case 2:
			return 1 << uint(r.Intn(64))
		case 3:
			return r.U64() & r.U64() & r.U64()
		}
		return r.U64()
	}
	// edge pairs: a hash and its complement (every bit differs), and exact distances 1, 63..65,
	// 127..129, 191..193, 255, 256 built by flipping the first n bits
	for k := 0; k < 64; k++ {
		var A, B imagehash.PHash256
		for i := range A {
			A[i] = pick64()
		}
		n := []int{256, 255, 1, 63, 64, 65, 127, 128, 129, 191, 192, 193, 254, 2, 0, 200}[k%16]
		B = A
		for bit := 0; bit < n; bit++ {
			B[bit/64] ^= 1 << uint(63-bit%64)
		}
		c.Rec.Eval(2)
		if got := A.Distance(B); int(got) != n || int(B.Distance(A)) != n {
			c.Rec.Violation("dist256:popcount", fmt.Sprintf("PHash256 d(a,b)=%d d(b,a)=%d for hashes that differ in exactly %d bits (a=%016x%016x%016x%016x)", got, B.Distance(A), n, A[0], A[1], A[2], A[3]), nil)
		}
		a := imagehash.PHash64(A[0])
		m := n
		if m > 64 {
			m = 64
		}
		b := a
		for bit := 0; bit < m; bit++ {
			b ^= 1 << uint(63-bit)
		}
		if int(a.Distance(b)) != m || int(b.Distance(a)) != m {
			c.Rec.Violation("dist64:popcount", fmt.Sprintf("PHash64 d(a,b)=%d for hashes that differ in exactly %d bits (a=%016x)", a.Distance(b), m, uint64(a)), nil)
		}
		c.Rec.SigHash(core.HashStr(fmt.Sprintf("dist-edge/%d", n)))
	}
	for k := 0; k < 2000; k++ {
		a, b, d := imagehash.PHash64(pick64()), imagehash.PHash64(pick64()), imagehash.PHash64(pick64())
		c.Rec.Eval(5)
		if a.Distance(a) != 0 {
			c.Rec.Violation("dist64:self", fmt.Sprintf("PHash64 d(a,a) = %d for a=%016x", a.Distance(a), uint64(a)), nil)
		}
		ab, ba := int(a.Distance(b)), int(b.Distance(a))
		if ab != ba || ab != bits.OnesCount64(uint64(a)^uint64(b)) {
			c.Rec.Violation("dist64:popcount", fmt.Sprintf("PHash64 d(a,b)=%d d(b,a)=%d popcount(a^b)=%d for a=%016x b=%016x", ab, ba, bits.OnesCount64(uint64(a)^uint64(b)), uint64(a), uint64(b)), nil)
		}
		if int(a.Distance(d)) > ab+int(b.Distance(d)) {
			c.Rec.Violation("dist64:triangle", "PHash64 triangle inequality violated", nil)
		}
		var A, B, D imagehash.PHash256
		for i := 0; i < 4; i++ {
			A[i], B[i], D[i] = pick64(), pick64(), pick64()
		}
		want := 0
		for i := 0; i < 4; i++ {
			want += bits.OnesCount64(A[i] ^ B[i])
		}
		if A.Distance(A) != 0 {
			c.Rec.Violation("dist256:self", "PHash256 d(a,a) != 0", nil)
		}
		if int(A.Distance(B)) != want || int(B.Distance(A)) != want {
			c.Rec.Violation("dist256:popcount", fmt.Sprintf("PHash256 d(a,b)=%d d(b,a)=%d popcount=%d for a=%v b=%v", A.Distance(B), B.Distance(A), want, A, B), nil)
		}
		if A.Distance(D) > A.Distance(B)+B.Distance(D) {
			c.Rec.Violation("dist256:triangle", "PHash256 triangle inequality violated", nil)
		}
		c.Rec.SigHash(core.HashStr(fmt.Sprintf("dist/%d/%d", ab, want)))
	}
}

// c19ValueImage is an image type whose dynamic type is a struct, with value-receiver methods.
type c19ValueImage struct{ inner image.Image }

func (v c19ValueImage) ColorModel() color.Model { return v.inner.ColorModel() }
func (v c19ValueImage) Bounds() image.Rectangle { return v.inner.Bounds() }
func (v c19ValueImage) At(x, y int) color.Color { return v.inner.At(x, y) }
