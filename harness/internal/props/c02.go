package props

import (
	"bytes"
	"fmt"
	"github.com/evanoberholster/imagemeta"
	"runtime"
	"strings"
	"sync"
	"time"

	"verif/harness/internal/core"
	"verif/harness/internal/gen"
	"verif/harness/internal/mon"
)

// workInput draws an input for the work/allocation checks: corpus files, their malformed
// variants, loop-targeted shapes and size-field attacks.
func workInput(c *core.Ctx, p *population, idx int, maxLen int) (data []byte, desc string, fi int) {
	r := c.Rng(idx)
	fi = r.Intn(len(p.files))
	f := p.files[fi]
	switch k := r.Intn(12); {
	case k >= 10:
		d, ds := gen.Shape(r)
		return d, ds, -2
	case k < 2:
		return f.Data, "file=" + f.Name, fi
	case k < 6:
		d, ds := gen.Mutate(r, f.Data, f.Fields, r.Pick(1, 1, 2, 3))
		return d, "file=" + f.Name + " mut=" + ds, fi
	case k < 8:
		n := r.Pick(64, 300, 2000, 9000, 40000)
		if maxLen > 100000 && r.Chance(1, 6) {
			n = r.Range(100000, maxLen)
		}
		d := gen.LoopShapes(r, n)
		return d, fmt.Sprintf("loopshape len=%d head=%x", len(d), d[:min(len(d), 12)]), -1
	case k < 9: // size-field attack: every size/count field of one structure set to a huge value
		d := append([]byte(nil), f.Data...)
		n := 0
		for _, fl := range f.Fields {
			if (fl.Kind == "size" || fl.Kind == "count") && r.Chance(1, 3) {
				gen.PutField(d, fl, []uint64{0xffffffff, 0x7fffffff, 0xfffffff0, 0xffff, 0x80000000}[r.Intn(5)])
				n++
				if n > 3 {
					break
				}
			}
		}
		return d, fmt.Sprintf("file=%s sizeattack=%d", f.Name, n), fi
	default:
		n := r.Pick(100, 1000, 5000, 30000)
		if maxLen > 100000 && r.Chance(1, 4) {
			n = r.Range(100000, maxLen)
		}
		d := r.Bytes(n)
		heads := []string{"\xff\xd8\xff\xe1", "II*\x00\x08\x00\x00\x00", "MM\x00*\x00\x00\x00\x08", "\x89PNG\r\n\x1a\n", "\x00\x00\x00\x18ftypcrx \x00\x00\x00\x01crx isom", "\x00\x00\x00\x18ftypheic\x00\x00\x00\x00mif1heic", "\x00\x00\x00\x18ftypavif\x00\x00\x00\x00mif1avif", "<x:xmpmeta "}
		copy(d, heads[r.Intn(len(heads))])
		return d, fmt.Sprintf("random len=%d", n), -1
	}
}

func min(a, b int) int {
	if a < b {
		return a
	}
	return b
}

// C02 — every decode terminates after work linear in the input size.
type C02 struct {
	once sync.Once
	pop  *population
}

func (e *C02) ID() string    { return "C02" }
func (e *C02) Level() string { return "exploration" }
func (e *C02) Rule() string {
	return "each case is one input (corpus file, 1-3 structure-aware malformations of one, a loop-targeted shape such as non-SOI markers / FF runs / zero-size boxes and iinf entries / wrapping PNG lengths / partial TIFF signatures / kilobytes of XMP white space, a size-field attack, or random bytes behind a plausible header; up to 1 MiB in the thorough tier; every 24th case one tiny unit - an 8..32-byte box of every known type in every container context, a minimal JPEG segment, PNG chunk, IFD entry, one-entry IFD chain or XMP token - tiled to 150..900 KB) run through its natural entry points plus two random ones over an instrumented io.ReadSeeker. Refuted by: bytes requested (sum of len(p) over all reads issued, those issued again after the end of the input included) > 4*len+64KiB (the constant once per library call for the harness's own composition of the ISOBMFF reader: ReadFTYP + up to five ReadMetadata), reads issued at end of input > len/8+512, seeks > len/8+64, or the call still running after a CPU-time budget of 2s+50us*len (process rusage, not wall clock). Non-trivial: the call requested more than 64 bytes; distinct = (entry, outcome class, log2 bucket of requested/len)."
}
func (e *C02) Assumptions() []string {
	return []string{"termination is restated as bounded progress: a CPU-time budget three to four orders of magnitude above the normal cost",
		"bytes requested are summed over Read/ReadAt calls of the reader handed to the entry point"}
}
func (e *C02) Plan(tier string, seed uint64) int {
	if tier == "thorough" {
		return 300000
	}
	return 30000
}
func (e *C02) MinNontrivial(tier string) int                { return 40 }
func (e *C02) CPUBudget(tier string, idx int) time.Duration { return 120 * time.Second }

func (e *C02) Run(c *core.Ctx, idx int) {
	e.once.Do(func() { e.pop = getPop(c.Seed) })
	p := e.pop
	maxLen := 60000
	if c.Thorough() {
		maxLen = 1 << 20
	}
	data, desc, fi := workInput(c, p, idx, maxLen)
	r := c.Rng(idx, 7)
	if idx%24 == 5 {
		// one tiny unit tiled to hundreds of kilobytes: per-unit work adds up
		data, desc = gen.TileShape(r, r.Range(150000, 900000))
		fi = -2
	}
	var ents []int
	if fi >= 0 {
		ents = append(ents, p.natural[fi]...)
	} else if fi == -2 {
		ents = append(ents, EntriesFor(p.entries, gen.KindOf(data))...)
	} else {
		for i := range p.entries {
			ents = append(ents, i)
		}
	}
	ents = append(ents, r.Intn(len(p.entries)), r.Intn(len(p.entries)))
	n := int64(len(data))
	for _, ei := range ents {
		ent := p.entries[ei]
		rs := mon.NewRS(data)
		what := desc
		// (no short-read schedules here: a buffered reader re-requests its whole free space after
		// every short read, which would inflate "bytes requested" without any fault of the decoder)
		c.SetPhase("entry=" + ent.Name + " " + what)
		dumpInput(c, ent.Name, data)
		c.StartCall(2*time.Second + time.Duration(50*len(data))*time.Microsecond)
		var o string
		panicked, _, text := core.Guard(func() { o = ent.Run(rs) })
		c.StartCall(120 * time.Second)
		c.Rec.Eval(1)
		if panicked {
			// a panic is C01's business; here the call did end, so only note it
			c.Rec.Count("panics_seen(C01)", 1)
			_ = text
			continue
		}
		// every byte asked of the reader counts, also what is asked of it again after it has reported
		// the end of the input (those requests deliver nothing, but they are requests)
		libCalls := int64(1)
		if strings.HasPrefix(ent.Name, "isobmff/") {
			libCalls = 6 // the harness's composition: ReadFTYP and up to five ReadMetadata calls, each a call of its own
		}
		if req := rs.Requested + rs.RequestedAtEOF; req > 4*n+libCalls*64*1024 {
			c.Rec.Violation("work:bytes:"+ent.Name, fmt.Sprintf("%s requested %d bytes from the reader (%d of them after the end of the input) for a %d-byte input (bound %d): %s", ent.Name, req, rs.RequestedAtEOF, n, 4*n+libCalls*64*1024, what),
				map[string]any{"entry": ent.Name, "input": what, "requested": rs.Requested, "requested_after_eof": rs.RequestedAtEOF, "len": n, "reads": rs.Reads, "seeks": rs.Seeks})
		}
		c.Rec.Max("requested_incl_eof_ratio", float64(rs.Requested+rs.RequestedAtEOF)/float64(4*n+64*1024))
		if int64(rs.EOFReads) > n/8+512 {
			c.Rec.Violation("work:eofreads:"+ent.Name, fmt.Sprintf("%s kept reading at end of input: %d reads after EOF for a %d-byte input (bound %d): %s", ent.Name, rs.EOFReads, n, n/8+512, what),
				map[string]any{"entry": ent.Name, "input": what, "eof_reads": rs.EOFReads, "len": n})
		}
		c.Rec.Max("eof_reads", float64(rs.EOFReads))
		if int64(rs.Seeks) > n/8+64 {
			c.Rec.Violation("work:seeks:"+ent.Name, fmt.Sprintf("%s issued %d seeks for a %d-byte input (bound %d): %s", ent.Name, rs.Seeks, n, n/8+64, what),
				map[string]any{"entry": ent.Name, "input": what, "seeks": rs.Seeks, "len": n})
		}
		if n > 0 {
			c.Rec.Max("bytes_requested_ratio", float64(rs.Requested)/float64(n+16384))
		}
		if rs.Requested > 64 {
			ratio := 0
			if n > 0 {
				ratio = bucket2(rs.Requested * 16 / (n + 1))
			}
			c.Rec.Sig(ent.Name + "|" + outcomeClass(o) + "|" + fmt.Sprint(ratio))
		}
	}
	if c.Rec.WantSample() && idx%53 == 0 {
		c.Rec.Sample(map[string]any{"input": desc, "len": len(data), "entries": len(ents)})
	}
}

func bucket2(n int64) int {
	b := 0
	for n > 0 {
		n >>= 1
		b++
	}
	return b
}

// C14 — memory allocated by a decode is bounded by the input size.
type C14 struct {
	once sync.Once
	pop  *population
}

func (e *C14) ID() string    { return "C14" }
func (e *C14) Level() string { return "exploration" }
func (e *C14) Rule() string {
	return "inputs as in C02 (corpus, malformations, loop shapes, random) with extra weight on size-field attacks (PRVW size, iloc/iinf/ipma counts, tag counts, 32/64-bit box sizes, ftyp size, PNG chunk lengths, JPEG segment lengths set to huge values) and, every 12th case, one tiny unit (an 8..32-byte box of each known type inside meta/iinf/ipco/iref/moov/the Canon uuid/the preview uuid/top level, a minimal Exif or XMP APP1 segment, PNG chunk, IFD entry, chain of one-entry IFDs, XMP token) tiled to 180 KB..1.2 MB, where per-unit allocation adds up against 16 bytes per input byte; for inputs above 96 KiB only the library's own entry points are measured (harness-composed callbacks allocate per block on the caller's account); one case decodes 115 JPEGs in a row that carry 2000 pairwise different zone strings each (230 000 in all: what a decode allocates must not depend on what the process keeps from earlier files); each call runs alone in a single-goroutine worker between two runtime.ReadMemStats; refuted by TotalAlloc delta > 4MiB + 16*len(input) or by the worker dying of out-of-memory (RLIMIT_AS back-stop). Non-trivial: the call allocated anything; distinct = (entry, log2 bucket of bytes allocated per input byte)."
}
func (e *C14) Assumptions() []string {
	return []string{"TotalAlloc counts heap allocation only (stack growth is not measured)", "the library entry points are called bare (results discarded unformatted); for the composed entries (scanner + callbacks) the harness's own allocations inside a call (observation strings, 777-byte drain buffers) are inside the 4 MiB constant, and those entries are not run on inputs above 96 KiB",
		"one call at a time per worker process, so the delta is attributable to the call"}
}
func (e *C14) Plan(tier string, seed uint64) int {
	if tier == "thorough" {
		return 300000
	}
	return 24000
}
func (e *C14) MinNontrivial(tier string) int { return 30 }
func (e *C14) InitWorker(c *core.Ctx) {
	// back-stop: a giant make() becomes a fatal out-of-memory error of this worker, attributed to
	// the case by the driver
	setAddressSpaceLimit(24 << 30)
}

func (e *C14) Run(c *core.Ctx, idx int) {
	e.once.Do(func() { e.pop = getPop(c.Seed) })
	p := e.pop
	maxLen := 60000
	if c.Thorough() {
		maxLen = 1 << 19
	}
	if idx == 4321 {
		// a process that has seen many files: 115 JPEGs in a row, each with 2000 zone strings no
		// earlier file had; what one decode allocates must not depend on what the process keeps
		// from the earlier ones
		var m0, m1 runtime.MemStats
		imagemeta.VerifResetState()
		for k := 0; k < 115; k++ {
			data := gen.ZoneFloodJPEG(k)
			rs := mon.NewRS(data)
			c.SetPhase(fmt.Sprintf("zone flood file %d", k))
			runtime.ReadMemStats(&m0)
			_, _, _ = core.Guard(func() { _, _ = imagemeta.DecodeJPEG(rs) })
			runtime.ReadMemStats(&m1)
			c.Rec.Eval(1)
			delta, bound := m1.TotalAlloc-m0.TotalAlloc, uint64(4<<20)+16*uint64(len(data))
			c.Rec.Max("alloc_over_bound", float64(delta)/float64(bound))
			if delta > bound {
				c.Rec.Violation("alloc:history:DecodeJPEG", fmt.Sprintf("DecodeJPEG allocated %d bytes for a %d-byte input (bound %d) as file %d of a series whose files each carry 2000 zone strings not seen before", delta, len(data), bound, k),
					map[string]any{"file_index": k, "allocated": delta, "len": len(data)})
				break
			}
		}
		imagemeta.VerifResetState()
		return
	}
	data, desc, fi := workInput(c, p, idx*2+1, maxLen)
	r := c.Rng(idx, 14)
	if idx == 4322 {
		// the listed finding's input, in every run
		head := "<x:xmpmeta xmlns:x='adobe:ns:meta/'><rdf:RDF xmlns:rdf='http://www.w3.org/1999/02/22-rdf-syntax-ns#'><rdf:Description rdf:about='' xmlns:dc='http://purl.org/dc/elements/1.1/'><dc:subject><rdf:Bag>"
		data = append([]byte(head), bytes.Repeat([]byte("<:>x"), 260000)...)
		data = append(data, "</rdf:Bag></dc:subject></rdf:Description></rdf:RDF></x:xmpmeta>"...)
		desc, fi = fmt.Sprintf("tiles xmp unit=%q n=260000 len=%d in=%q", "<:>x", len(data), "<dc:subject><rdf:Bag>"), -2
	}
	if idx == 4323 || idx == 4324 {
		// two per-unit costs that only a particular XMP tile shows, in every run (the random tiles
		// draw them in most runs, not in all): identifier values made of separators, and an array of
		// short items under a date property
		head := "<x:xmpmeta xmlns:x='adobe:ns:meta/'><rdf:RDF xmlns:rdf='http://www.w3.org/1999/02/22-rdf-syntax-ns#'><rdf:Description rdf:about='' xmlns:xmpMM='http://ns.adobe.com/xap/1.0/mm/' xmlns:xmp='http://ns.adobe.com/xap/1.0/'>"
		tail := "</rdf:Description></rdf:RDF></x:xmpmeta>"
		var body []byte
		unit := ""
		if idx == 4323 {
			unit = "<xmpMM:InstanceID>" + strings.Repeat(":", 1400) + "</xmpMM:InstanceID>"
			body = bytes.Repeat([]byte(unit), 600)
			unit = "<xmpMM:InstanceID>:::(1400)</xmpMM:InstanceID>"
		} else {
			unit = "<rdf:li>2:</rdf:li>"
			body = append([]byte("<xmp:CreateDate><rdf:Seq>"), bytes.Repeat([]byte(unit), 40000)...)
			body = append(body, "</rdf:Seq></xmp:CreateDate>"...)
		}
		data = append(append([]byte(head), body...), tail...)
		desc, fi = fmt.Sprintf("tiles xmp (fixed case) unit=%q len=%d", unit, len(data)), -2
	}
	if idx%12 == 5 {
		// one tiny unit tiled to hundreds of kilobytes: what is allocated per unit adds up against
		// 16 bytes per input byte (the 4 MiB constant hides it in small inputs)
		data, desc = gen.TileShape(r, r.Range(180000, 1200000))
		fi = -2
	}
	if fi >= 0 && r.Chance(1, 2) {
		// allocation-site attack on top: every size-like field may become huge
		f := p.files[fi]
		d := append([]byte(nil), f.Data...)
		k := 0
		for _, fl := range f.Fields {
			if (fl.Kind == "size" || fl.Kind == "count") && r.Chance(1, 4) {
				gen.PutField(d, fl, []uint64{0xffffffff, 0x7fffffff, 0xfffffff0, 0xffff, 0x80000000, 0x7fffffffffffffff}[r.Intn(6)])
				k++
			}
		}
		data, desc = d, fmt.Sprintf("file=%s sizeattack=%d", f.Name, k)
	}
	var ents []int
	if fi >= 0 {
		ents = append(ents, p.natural[fi]...)
	} else if fi == -2 {
		ents = append(ents, EntriesFor(p.entries, gen.KindOf(data))...)
	} else {
		for i := range p.entries {
			ents = append(ents, i)
		}
	}
	n := uint64(len(data))
	var m0, m1 runtime.MemStats
	for _, ei := range ents {
		ent := p.entries[ei]
		if strings.HasPrefix(ent.Name, "Clean") {
			continue // operates on a caller-supplied copy, allocates nothing itself
		}
		if len(data) > 96<<10 && (strings.Contains(ent.Name, "/rec") || strings.Contains(ent.Name, "/lib")) {
			// these compose a scanner with callbacks of the harness's choosing (recording callbacks,
			// one xmp.ParseXmp with its own look-ahead buffer per block): what the callbacks allocate
			// per block is the caller's, and in inputs of thousands of blocks it no longer hides in
			// the constant. The library's own compositions (Decode*, PreviewCR3) are measured.
			continue
		}
		rs := mon.NewRS(data)
		c.SetPhase("entry=" + ent.Name + " " + desc)
		dumpInput(c, ent.Name, data)
		runtime.ReadMemStats(&m0)
		call := func() { _ = ent.Run(rs) }
		if raw := entryRaw[ent.Name]; raw != nil {
			call = func() { raw(rs) }
		}
		panicked, _, _ := core.Guard(call)
		runtime.ReadMemStats(&m1)
		c.Rec.Eval(1)
		if panicked {
			c.Rec.Count("panics_seen(C01)", 1)
		}
		delta := m1.TotalAlloc - m0.TotalAlloc
		bound := uint64(4<<20) + 16*n
		if delta > bound {
			key := "alloc:" + ent.Name
			if strings.HasPrefix(desc, "tiles xmp unit=\"<:>x\"") && strings.Contains(desc, "<dc:") && delta < bound+bound/4 {
				// the listed finding: array items of 4 bytes each under a property kept as []string
				// (a 16-byte string header per item and the amortised growth of the list); the key is
				// this input class, whatever the entry point, and only while the excess stays small
				key = "alloc:xmp-array-of-4-byte-items"
			}
			c.Rec.Violation(key, fmt.Sprintf("%s allocated %d bytes for a %d-byte input (bound %d): %s", ent.Name, delta, n, bound, desc),
				map[string]any{"entry": ent.Name, "input": desc, "allocated": delta, "len": n})
		}
		c.Rec.Max("alloc_bytes", float64(delta))
		c.Rec.Max("alloc_over_bound", float64(delta)/float64(bound))
		if delta > 0 {
			c.Rec.Sig(ent.Name + "|" + fmt.Sprint(bucket2(int64(delta/(n+1)))))
		}
	}
	if c.Rec.WantSample() && idx%41 == 0 {
		c.Rec.Sample(map[string]any{"input": desc, "len": len(data)})
	}
}

func firstWord(s string) string {
	if i := strings.IndexByte(s, ' '); i > 0 {
		return s[:i]
	}
	return s
}
