package props

import (
	"fmt"
	"image"
	"math"

	"github.com/evanoberholster/imagemeta/imagehash"
	"github.com/evanoberholster/imagemeta/imagehash/transforms"
	"github.com/evanoberholster/imagemeta/imagehash/transforms32"

	"verif/harness/internal/core"
	"verif/harness/internal/mon"
)

// C20 — YCbCr-to-gray conversion is layout-correct and memory-safe for accepted images.
type C20 struct{}

func (e *C20) ID() string    { return "C20" }
func (e *C20) Level() string { return "exploration" }
func (e *C20) Rule() string {
	return "seeded *image.YCbCr images of the accepted sizes (64x64, 256x256) over subsampling {4:4:4, 4:2:2, 4:2:0, 4:4:0, 4:1:1, 4:1:0} x origins {(0,0),(8,8),(1,3),(-8,-8),(-5,3),(16,0)} x plane layouts {tight, parent-image strides (YStride > width), odd strides, only the chroma rows padded, only the luma rows padded, full-width band of a taller parent (tight strides, planes continue below the rectangle)} x contents {random, gradient, saturated chroma, constant}; the three planes have exactly the length the rectangle needs (the band layout: that plus the parent's rows below) and each lies in its own mmap region flush against a PROT_NONE page (end and start placement alternate), the destination buffer likewise (also a deliberately 4-byte-misaligned one), and the pixel pools are given guarded buffers through the verif allocator hook. Calls: transforms32.ImageToGray (dispatching to the assembly where the package uses it), transforms32.AsmYCbCrToGray directly, transforms.Rgb2GrayFast, and NewPHash64/64Alt/256/256Alt. Oracle: every output pixel within 2.0 of the portable conversion formula evaluated by the harness at the corresponding absolute coordinates (YOffset/COffset of the image itself); no fault, all canary slack unchanged; each hash must be the median-threshold function (C19 oracle) of the coefficients of the luminance just verified. Non-trivial: every case (all convert >= 4096 pixels); distinct = distinct (ratio, origin, layout, size, placement, content)."
}
func (e *C20) Assumptions() []string {
	return []string{
		"accepted image = square 64x64 or 256x256 rectangle whose planes are long enough for every pixel of the rectangle (what image.NewYCbCr and SubImage produce); shorter planes are a caller error",
		"the guard-page sanitizer sees accesses that leave a plane or the destination by up to one page on the flush side, or that land in canary slack",
	}
}
func (e *C20) MinNontrivial(tier string) int { return 100 }

func (e *C20) Plan(tier string, seed uint64) int {
	if tier == "thorough" {
		return 300000
	}
	return 3000
}

var c20Ratios = []image.YCbCrSubsampleRatio{image.YCbCrSubsampleRatio444, image.YCbCrSubsampleRatio422, image.YCbCrSubsampleRatio420,
	image.YCbCrSubsampleRatio440, image.YCbCrSubsampleRatio411, image.YCbCrSubsampleRatio410}
var c20Origins = [][2]int{{0, 0}, {8, 8}, {1, 3}, {-8, -8}, {-5, 3}, {16, 0}}
var c20Layouts = []string{"tight", "parent", "odd", "chroma-padded", "luma-padded", "band"}
var c20Contents = []string{"random", "gradient", "saturated", "constant", "gray"}

type c20img struct {
	img    *image.YCbCr
	guards map[string]*mon.Guard
	desc   string
}

// c20Build constructs the image with guarded planes of minimal length.
func c20Build(r *core.Rng, ratio image.YCbCrSubsampleRatio, org [2]int, layout, content string, s int, atEnd bool) *c20img {
	rect := image.Rect(org[0], org[1], org[0]+s, org[1]+s)
	// a throw-away image of the same rectangle tells the chroma geometry (stdlib is the reference
	// for what YOffset/COffset mean)
	probe := image.YCbCr{SubsampleRatio: ratio, Rect: rect, YStride: 1 << 20, CStride: 1 << 20}
	cw, ch := 0, 0
	for x := rect.Min.X; x < rect.Max.X; x++ {
		if o := probe.COffset(x, rect.Min.Y) + 1; o > cw {
			cw = o
		}
	}
	for y := rect.Min.Y; y < rect.Max.Y; y++ {
		if o := probe.COffset(rect.Min.X, y)/(1<<20) + 1; o > ch {
			ch = o
		}
	}
	ys, cs := s, cw
	switch layout {
	case "parent":
		ys, cs = s+8, cw+4
	case "odd":
		ys, cs = s+r.Pick(1, 3, 5, 7), cw+r.Pick(1, 3)
	case "chroma-padded": // tight luma rows, padded chroma rows (planes padded separately)
		cs = cw + r.Pick(8, 16, 64, 1, 3)
	case "luma-padded":
		ys = s + r.Pick(8, 16, 64, 1, 3)
	}
	lenY := (s-1)*ys + s
	lenC := (ch-1)*cs + cw
	if layout == "band" {
		// a full-width band of a taller parent, as SubImage returns it: tight strides, and the
		// plane slices keep the parent's rows below the band (plane lengths say nothing about
		// the subsampling)
		tail := r.Pick(7, s, 2*s+3)
		lenY += tail * ys
		lenC += tail * cs
	}
	gy, gcb, gcr := mon.MustGuard(lenY, atEnd, 0), mon.MustGuard(lenC, !atEnd, 0), mon.MustGuard(lenC, atEnd, 0)
	im := &image.YCbCr{Y: gy.Bytes(), Cb: gcb.Bytes(), Cr: gcr.Bytes(), YStride: ys, CStride: cs, SubsampleRatio: ratio, Rect: rect}
	fill := func(p []byte, plane int) {
		switch content {
		case "random":
			copy(p, r.Bytes(len(p)))
		case "gradient":
			for i := range p {
				p[i] = uint8((i*3 + plane*50) % 256)
			}
		case "saturated":
			if plane == 0 {
				copy(p, r.Bytes(len(p)))
			} else {
				for i := range p {
					if (i/3+plane)%2 == 0 {
						p[i] = 255
					} else {
						p[i] = 0
					}
				}
			}
		case "gray":
			// a black-and-white picture stored as YCbCr: neutral chroma everywhere, varied luma
			if plane == 0 {
				copy(p, r.Bytes(len(p)))
			} else {
				for i := range p {
					p[i] = 128
				}
			}
		default:
			v := uint8(r.Intn(256))
			for i := range p {
				p[i] = v
			}
		}
	}
	fill(im.Y, 0)
	fill(im.Cb, 1)
	fill(im.Cr, 2)
	return &c20img{img: im, guards: map[string]*mon.Guard{"Y": gy, "Cb": gcb, "Cr": gcr},
		desc: fmt.Sprintf("%v origin=(%d,%d) layout=%s ystride=%d cstride=%d %dx%d content=%s planes_at_end=%v", ratio, org[0], org[1], layout, ys, cs, s, s, content, atEnd)}
}

func (ci *c20img) free() {
	for _, g := range ci.guards {
		g.Free()
	}
}

// c20Ref is the portable conversion formula at absolute coordinates, written from the
// property's reference (the package's portable loop): no clamping, r/257, g/257, b>>8.
func c20Ref(im *image.YCbCr, x, y int) float64 {
	yy := im.Y[im.YOffset(x, y)]
	ci := im.COffset(x, y)
	cb, cr := im.Cb[ci], im.Cr[ci]
	yy1 := int32(yy) * 0x10101
	cb1 := int32(cb) - 128
	cr1 := int32(cr) - 128
	r := yy1 + 91881*cr1
	g := yy1 - 22554*cb1 - 46802*cr1
	b := yy1 + 116130*cb1
	return 0.299*float64(r/257) + 0.587*float64(g/257) + 0.114*float64(b>>8)
}

func (e *C20) Run(c *core.Ctx, idx int) {
	r := c.Rng(idx)
	ratio := c20Ratios[idx%len(c20Ratios)]
	org := c20Origins[(idx/len(c20Ratios))%len(c20Origins)]
	layout := c20Layouts[r.Intn(len(c20Layouts))]
	content := c20Contents[r.Intn(len(c20Contents))]
	s, b := 64, 8
	if r.Chance(1, 6) {
		s, b = 256, 16
	}
	atEnd := r.Bool()
	ci := c20Build(r, ratio, org, layout, content, s, atEnd)
	defer ci.free()
	im := ci.img
	detail := func() map[string]any { return map[string]any{"image": ci.desc, "idx": idx} }

	// reference luminance
	ref := make([]float64, s*s)
	for y := 0; y < s; y++ {
		for x := 0; x < s; x++ {
			ref[y*s+x] = c20Ref(im, org[0]+x, org[1]+y)
		}
	}
	cmp := func(name string, get func(i int) float64) bool {
		worst, wi := 0.0, 0
		for i := range ref {
			v := get(i)
			d := math.Abs(v - ref[i])
			if math.IsNaN(v) {
				d = math.Inf(1)
			}
			if d > worst {
				worst, wi = d, i
			}
		}
		c.Rec.Max("luminance_diff_"+name, worst)
		if worst > 2.0 {
			d := detail()
			d["pixel"], d["got"], d["portable"] = []int{wi % s, wi / s}, get(wi), ref[wi]
			c.Rec.Violation("lum:"+name, fmt.Sprintf("%s: pixel (%d,%d) = %.6g, portable conversion at the corresponding coordinates = %.6g [%s]", name, wi%s, wi/s, get(wi), ref[wi], ci.desc), d)
			return false
		}
		return true
	}
	withDest := func(g *mon.Guard, name string) map[string]*mon.Guard {
		m := map[string]*mon.Guard{name: g}
		for k, v := range ci.guards {
			m[k] = v
		}
		return m
	}

	// 1. ImageToGray into a guarded destination (what NewPHash*Alt does with its pooled buffer)
	var lumAlt []float64
	{
		g := mon.MustGuard(4*s*s, !atEnd, 0)
		dst := g.Float32s()
		for i := range dst {
			dst[i] = float32(math.NaN())
		}
		gs := withDest(g, "dest32")
		ft := mon.CatchFault(func() { transforms32.ImageToGray(im, &dst) })
		c.Rec.Eval(1)
		if ft.Faulted || ft.Panic {
			reportFault(c, ft, "transforms32.ImageToGray "+ci.desc, gs, detail())
		} else {
			checkCanaries(c, "transforms32.ImageToGray "+ci.desc, gs, detail())
			if cmp("ImageToGray", func(i int) float64 { return float64(dst[i]) }) {
				lumAlt = make([]float64, s*s)
				for i, v := range dst {
					lumAlt[i] = float64(v)
				}
			}
		}
		g.Free()
	}
	// 2. AsmYCbCrToGray directly, aligned and misaligned destinations
	for _, shift := range []int{0, 4} {
		g := mon.MustGuard(4*s*s, shift == 0 == atEnd, shift)
		dst := g.Float32s()
		gs := withDest(g, "dest32")
		ft := mon.CatchFault(func() { transforms32.AsmYCbCrToGray(im, dst) })
		c.Rec.Eval(1)
		name := fmt.Sprintf("AsmYCbCrToGray(shift%d)", shift)
		if ft.Faulted || ft.Panic {
			reportFault(c, ft, "transforms32."+name+" "+ci.desc, gs, detail())
		} else {
			checkCanaries(c, "transforms32."+name+" "+ci.desc, gs, detail())
			cmp(name, func(i int) float64 { return float64(dst[i]) })
		}
		g.Free()
	}
	// 3. the float64 path
	var lumPri []float64
	{
		g := mon.MustGuard(8*s*s, atEnd, 0)
		dst := g.Float64s()
		gs := withDest(g, "dest64")
		ft := mon.CatchFault(func() { transforms.Rgb2GrayFast(im, &dst) })
		c.Rec.Eval(1)
		if ft.Faulted || ft.Panic {
			reportFault(c, ft, "transforms.Rgb2GrayFast "+ci.desc, gs, detail())
		} else {
			checkCanaries(c, "transforms.Rgb2GrayFast "+ci.desc, gs, detail())
			if cmp("Rgb2GrayFast", func(i int) float64 { return dst[i] }) {
				lumPri = append([]float64(nil), dst...)
			}
		}
		g.Free()
	}
	// 4. hashes, with the pools handing out guarded buffers
	pool := map[string]*mon.Guard{}
	imagehash.VerifSetPoolAllocators(
		func(n int) []float64 {
			g := mon.MustGuard(8*n, atEnd, 0)
			pool[fmt.Sprintf("pool64[%d]#%d", n, len(pool))] = g
			return g.Float64s()
		},
		func(n int) []float32 {
			g := mon.MustGuard(4*n, !atEnd, 0)
			pool[fmt.Sprintf("pool32[%d]#%d", n, len(pool))] = g
			return g.Float32s()
		})
	fnP, fnA := 0, 1
	if s == 256 {
		fnP, fnA = 2, 3
	}
	for _, fn := range []int{fnP, fnA} {
		var h c19hash
		var pan bool
		var ptext string
		ft := mon.CatchFault(func() { h, pan, ptext = c19call(fn, im) })
		c.Rec.Eval(1)
		gs := map[string]*mon.Guard{}
		for k, v := range ci.guards {
			gs[k] = v
		}
		for k, v := range pool {
			gs[k] = v
		}
		if ft.Faulted || ft.Panic {
			reportFault(c, ft, c19FnNames[fn]+" "+ci.desc, gs, detail())
			continue
		}
		if pan {
			d := detail()
			d["panic"] = ptext
			key := "panic:" + c19FnNames[fn]
			if containsFault(ptext) {
				key = "guardfault:" + c19FnNames[fn]
				c.Rec.Count("guard_faults", 1)
			}
			c.Rec.Violation(key, fmt.Sprintf("%s panicked on an accepted YCbCr image: %s [%s]", c19FnNames[fn], firstLineOf(ptext), ci.desc), d)
			continue
		}
		checkCanaries(c, c19FnNames[fn]+" "+ci.desc, gs, detail())
		if h.err != nil {
			c.Rec.Violation("hash:rejected-valid:"+c19FnNames[fn], fmt.Sprintf("%s rejected an image of the required size: %v [%s]", c19FnNames[fn], h.err, ci.desc), detail())
			continue
		}
		lum := lumPri
		if fn == fnA {
			lum = lumAlt
		}
		if lum == nil {
			continue // the conversion already failed its own check
		}
		co, rows := refDCT2DLowRows(lum, s, b)
		tau := 1e-9 * l1(lum)
		if fn == fnA {
			tau = tau32For(lum, rows, s, b)
		}
		if v := checkHashAgainstCoeffs(hashBits(h.words), co, tau); v != nil {
			d := detail()
			d["hash"] = h.String()
			c.Rec.Violation(v.Key+":"+c19FnNames[fn], fmt.Sprintf("%s: %s [%s]", c19FnNames[fn], v.Msg, ci.desc), d)
		}
	}
	imagehash.VerifResetPools()
	for _, g := range pool {
		g.Free()
	}
	c.Rec.Count("guarded_pool_buffers", int64(len(pool)))
	c.Rec.Sig(fmt.Sprintf("%v/(%d,%d)/%s/%d/end=%v/%s", ratio, org[0], org[1], layout, s, atEnd, content))
	if c.Rec.WantSample() {
		c.Rec.Sample(map[string]any{"image": ci.desc})
	}
}

func containsFault(s string) bool {
	for _, k := range []string{"fault address", "invalid memory address", "SIGSEGV"} {
		for i := 0; i+len(k) <= len(s); i++ {
			if s[i:i+len(k)] == k {
				return true
			}
		}
	}
	return false
}
