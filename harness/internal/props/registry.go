package props

import "verif/harness/internal/core"

var registry = map[string]func() core.Engine{
	"C01": func() core.Engine { return &C01{} },
	"C02": func() core.Engine { return &C02{} },
	"C14": func() core.Engine { return &C14{} },
}

// Lookup returns a fresh engine for the property id, or nil.
func Lookup(id string) core.Engine {
	if f, ok := registry[id]; ok {
		return f()
	}
	return nil
}
