package props

import "verif/harness/internal/core"

var registry = map[string]func() core.Engine{
	"C01": func() core.Engine { return &C01{} },
	"C02": func() core.Engine { return &C02{} },
	"C03": func() core.Engine { return &C03{} },
	"C04": func() core.Engine { return &C04{} },
	"C05": func() core.Engine { return &C05{} },
	"C06": func() core.Engine { return &C06{} },
	"C07": func() core.Engine { return &C07{} },
	"C08": func() core.Engine { return &C08{} },
	"C09": func() core.Engine { return &C09{} },
	"C10": func() core.Engine { return &C10{} },
	"C11": func() core.Engine { return &C11{} },
	"C12": func() core.Engine { return &C12{} },
	"C13": func() core.Engine { return &C13{} },
	"C14": func() core.Engine { return &C14{} },
	"C15": func() core.Engine { return &C15{} },
	"C16": func() core.Engine { return &C16{} },
	"C17": func() core.Engine { return &C17{} },
	"C18": func() core.Engine { return &C18{} },
	"C19": func() core.Engine { return &C19{} },
	"C20": func() core.Engine { return &C20{} },
}

// Lookup returns a fresh engine for the property id, or nil.
func Lookup(id string) core.Engine {
	if f, ok := registry[id]; ok {
		return f()
	}
	return nil
}
