package props

import (
	"bufio"
	"bytes"
	"encoding/binary"
	"fmt"
	"io"
	"time"

	"github.com/evanoberholster/imagemeta/exif2"
	"github.com/evanoberholster/imagemeta/jpeg"
	"github.com/evanoberholster/imagemeta/meta"
	"github.com/evanoberholster/imagemeta/meta/utils"

	"verif/harness/internal/core"
	"verif/harness/internal/gen"
	"verif/harness/internal/mon"
)

// C10 — JPEG segment framing.
type C10 struct{}

func (e *C10) ID() string    { return "C10" }
func (e *C10) Level() string { return "exploration" }
func (e *C10) Rule() string {
	return "(in library mode the bytes the library's own DecodeJPEGIfd takes from its reader are counted and must equal the declared length, also for blocks that are cut short or hostile inside) each case generates a marker stream SOI, S1..Sn, DQT, >=64 bytes of scan data with Si drawn from APP0-15 (JFIF, JFXX, ICC, Photoshop, XMP-extension, Exif/XMP-looking prefixes on the wrong marker, near-miss APP1 prefixes, random payloads full of 0xFF and nested SOI/EOI/APP1/DQT byte pairs), COM, DRI, SOF0-15, with 0-2 Exif APP1 and 0-2 XMP APP1 segments in every relative order and payload lengths from 0 to the 65533 maximum; the generator records marker, absolute offset and payload of every segment. ScanJPEG runs with recording callbacks implementing the consumption behaviours the property quantifies over (XMP: read nothing / a prefix / everything via io.ReadAll or odd-sized reads; Exif: exactly the declared length in seeded pieces, or the library's own DecodeJPEGIfd) over a plain reader, a small bufio.Reader (forces the pooled reader) or a 4 KiB+ bufio.Reader. Oracle: the sequence of callbacks equals the sequence of metadata segments before the first DQT; each Exif header has the byte order, first-IFD offset, absolute TIFF offset and length of that segment; the bytes readable in each callback equal the recorded payload exactly (no more, no fewer); no callback for any other segment; final error nil. Non-trivial: >=1 callback and >=2 other segments; distinct = (order pattern of Exif/XMP/other, consumption behaviours, reader kind)."
}
func (e *C10) Assumptions() []string {
	return []string{"fill bytes (FF FF) before markers and parameterless markers (RSTn, TEM) are not generated in the header area: the statement quantifies over the listed segment kinds",
		"Exif payloads are at least 8 bytes (a TIFF header)"}
}
func (e *C10) Plan(tier string, seed uint64) int {
	if tier == "thorough" {
		return 2000000
	}
	return 40000
}
func (e *C10) MinNontrivial(tier string) int { return 100 }

type c10cb struct {
	kind   string
	hdr    meta.ExifHeader
	bytes  []byte
	readOK bool
	note   string
}

func (e *C10) Run(c *core.Ctx, idx int) {
	r := c.Rng(idx)
	// ---- build the stream
	nOther := r.Range(0, 7)
	if r.Chance(1, 12) {
		nOther = r.Range(20, 70) // long runs of small segments before and between the metadata
	}
	nExif, nXMP := r.Pick(0, 1, 1, 1, 2, 3), r.Pick(0, 1, 1, 2, 3)
	var segs []gen.Seg
	maxLen := 600
	if r.Chance(1, 6) {
		maxLen = 65533
	}
	for i := 0; i < nOther; i++ {
		segs = append(segs, gen.RandOtherSeg(r, maxLen))
	}
	if len(segs) > 0 && r.Chance(1, 5) {
		// a non-metadata segment at the extremes of the 16-bit length field (0xFFFF, 0xFFFE, ...),
		// its payload full of marker-like bytes and a complete fake Exif APP1 near both ends
		i := r.Intn(len(segs))
		for k := 0; k < len(segs) && !(segs[i].Marker>>4 == 0xE || segs[i].Marker == 0xFE); k++ {
			i = (i + 1) % len(segs) // only APPn / COM segments have a free length (DRI and SOF are fixed)
		}
		L := r.Pick(65533, 65533, 65532, 65531, 65530, 65529)
		if !(segs[i].Marker>>4 == 0xE || segs[i].Marker == 0xFE) {
			L = len(segs[i].Payload)
		}
		p := segs[i].Payload
		if len(p) > 40 {
			p = p[:40]
		}
		if len(p) > L {
			p = p[:L]
		}
		fill := gen.HostilePayload(r, L-len(p))
		fake := append([]byte{0xFF, 0xE1, 0x00, 0x20}, []byte(gen.ExifPrefix+"II*\x00\x08\x00\x00\x00")...)
		if len(fill) > 200 {
			copy(fill[1:], fake)
			copy(fill[len(fill)-60:], fake)
		}
		segs[i].Payload = append(p, fill...)
	}
	for i := 0; i < nExif; i++ {
		var t []byte
		switch r.Intn(4) {
		case 0: // a real generated payload, sometimes cut short inside (the segment itself stays well-formed)
			t, _, _ = gen.SynthPayload(r, r.Bool(), 3)
			if r.Chance(1, 4) {
				// one parsed text value longer than any pooled buffer (4 KiB), inside a block that
				// still fits its segment
				rec := gen.GenExifRec(r, gen.RecOpts{Density: 50})
				keep := rec.IFD0.Entries[:0]
				for _, en := range rec.IFD0.Entries {
					if en.Tag != 0x010e {
						keep = append(keep, en)
					}
				}
				rec.IFD0.Entries = keep
				rec.IFD0.Add(0x010e, gen.ASCII(gen.XText(r, r.Pick(4090, 4096, 4097, 5000, 9000, 20000))))
				t = gen.BuildTIFF(rec.Assemble(true), gen.Layout{Big: r.Bool(), FirstOff: 8, MaxPad: r.Pick(0, 3), Order: r.Intn(3), R: r}).Bytes
			}
			if len(t) > 65000 {
				t = t[:65000]
			}
			if r.Chance(1, 3) && len(t) > 16 {
				t = t[:len(t)-r.Pick(1, 2, 3, 4, 5, 8, r.Intn(len(t)-8))]
			}
		default: // a TIFF header followed by hostile bytes
			n := r.Range(0, 300)
			if r.Chance(1, 8) {
				n = r.Range(300, 65533-6-8)
			}
			t = make([]byte, 8, 8+n)
			off := r.U32()
			if r.Bool() {
				copy(t, "MM\x00*")
				binary.BigEndian.PutUint32(t[4:], off)
			} else {
				copy(t, "II*\x00")
				binary.LittleEndian.PutUint32(t[4:], off)
			}
			t = append(t, gen.RandOtherSeg(r, n+1).Payload...)
			if r.Chance(1, 5) {
				// a block exactly as long as one, two, three or four windows of the 4 KiB buffered
				// reader (or a byte off): what the reader has buffered after the block equals what
				// it had before
				want := r.Pick(4096, 4096, 8192, 12288, 16384, 4095, 4097, 8191)
				for len(t) < want {
					t = append(t, gen.RandOtherSeg(r, want-len(t)+1).Payload...)
				}
				t = t[:want]
			}
			if len(t) > 65533-6 {
				t = t[:65533-6]
			}
			if r.Chance(1, 5) {
				// a block whose header is unusable (signature blanked, or a first-directory offset
				// of 0): it is a segment like any other, what follows it is found all the same
				if r.Bool() {
					copy(t, r.PickStr("\x00\x00\x00\x00", "XXXX", "II\x00*", "MM*\x00", "Exif"))
				} else {
					copy(t[4:8], []byte{0, 0, 0, 0})
				}
			}
		}
		segs = append(segs, gen.ExifSeg(t))
	}
	if r.Chance(1, 6) {
		// an APP1 segment that holds the Exif identifier and less than a TIFF header (0..7 bytes):
		// no Exif block can be announced for it, and what follows it must be found all the same
		stub := gen.ExifSeg([]byte("MM\x00*\x00\x00\x00\x08")[:r.Intn(8)])
		stub.Kind = "other"
		segs = append(segs, stub)
	}
	for i := 0; i < nXMP; i++ {
		n := r.Range(0, 400)
		if r.Chance(1, 6) {
			n = r.Range(400, 65533-29)
		}
		var pk []byte
		if r.Bool() {
			pk = gen.GenXMPRec(r, 40, 100).Serialise(r, gen.RandXMPStyle(r, false), 0)
			if len(pk) > 65533-29 {
				pk = pk[:65533-29]
			}
		} else {
			pk = gen.RandOtherSeg(r, n+1).Payload
			if len(pk) > 65533-29 {
				pk = pk[:65533-29]
			}
		}
		segs = append(segs, gen.XMPSeg(pk))
	}
	// shuffle
	pm := r.Perm(len(segs))
	sh := make([]gen.Seg, len(segs))
	for i, j := range pm {
		sh[i] = segs[j]
	}
	if len(sh) > 1 && r.Chance(1, 4) {
		// alignment: a COM segment in front is sized so that the marker of a randomly chosen later
		// segment starts 0..70 bytes before a 4 KiB boundary of the stream (where a 4 KiB buffered
		// reader has only that much left before it must refill)
		k := r.Range(1, len(sh)-1)
		off := 2
		for _, sg := range sh[:k] {
			off += 4 + len(sg.Payload)
		}
		want := 4096 - r.Intn(71)
		pad := ((want-(off+4))%4096 + 4096) % 4096
		com := gen.Seg{Marker: 0xFE, Payload: gen.HostilePayload(r, pad), Kind: "other"}
		for i := range com.Payload {
			if com.Payload[i] == 0xFF {
				com.Payload[i] = 0x20
			}
		}
		sh = append([]gen.Seg{com}, sh...)
	}
	if len(sh) > 0 && r.Chance(1, 5) {
		// fill bytes: any marker may be preceded by any number of 0xFF bytes
		for k := r.Range(1, 3); k > 0; k-- {
			sh[r.Intn(len(sh))].Fill = r.Pick(1, 1, 2, 3, 7, 61, 62, 63, 64, 65, 200, 5000) // (any number is legal, also more than a look-ahead window holds)
		}
	}
	j := gen.BuildJPEG(r, sh, r.Range(64, 300))
	// ---- expected callbacks
	var want []gen.Seg
	pattern := ""
	for _, s := range j.Segs {
		switch s.Kind {
		case "exif":
			want = append(want, s)
			pattern += "E"
		case "xmp":
			want = append(want, s)
			pattern += "X"
		default:
			pattern += "o"
		}
	}
	var exifPayloads [][]byte
	for _, sg := range want {
		if sg.Kind == "exif" {
			exifPayloads = append(exifPayloads, sg.Payload[6:])
		}
	}
	// ---- run
	exifMode := r.Intn(3)   // 0 exact pieces, 1 library DecodeJPEGIfd, 2 exact via ReadFull
	xmpMode := r.Intn(6)    // 0 nothing, 1 prefix, 2 ReadAll, 3 odd-sized reads to EOF, 4 io.Copy, 5 optional interfaces
	readerKind := r.Intn(3) // 0 plain, 1 small bufio, 2 big bufio
	var got []c10cb
	ir := exif2.NewIfdReader(exif2.Logger)
	defer ir.Close()
	exifSeen := 0
	exifCb := func(rd io.Reader, h meta.ExifHeader) error {
		cb := c10cb{kind: "exif", hdr: h}
		exifIdx := exifSeen
		exifSeen++
		switch exifMode {
		case 1:
			cr := &countingReader{r: rd}
			var err error
			if br, ok := rd.(exif2.BufferedReader); ok && r.Bool() {
				// keep the Peek/Discard interface the library's reader prefers (its buffered path)
				cb2 := &countingBuffered{br: br}
				err = ir.DecodeJPEGIfd(cb2, h)
				cr.n = cb2.n
				c.Rec.Count("lib_exif_reader_buffered_path", 1)
			} else {
				err = ir.DecodeJPEGIfd(cr, h)
			}
			cb.note = fmt.Sprint("lib err=", err)
			c.Rec.Count("lib_exif_reader_calls", 1)
			if err != nil {
				c.Rec.Count("lib_exif_reader_errors", 1)
				// A block whose root directory lies completely inside it gives the reader no reason to
				// abort the scan (what goes wrong in sub-directories is not fatal): an error here
				// would hide every metadata segment that follows.
				if exifIdx < len(exifPayloads) && rootDirInside(exifPayloads[exifIdx], h) {
					c.Rec.Violation("jpeg:lib-exif-abort", fmt.Sprintf("the library's own Exif reader returned %v for a block whose root directory is complete; as a callback it ends the scan and the metadata segments behind it are never delivered", err), map[string]any{"error": fmt.Sprint(err), "first_ifd": h.FirstIfdOffset, "length": h.ExifLength})
				}
			}
			if cr.n != int64(h.ExifLength) {
				// the statement's proviso names the library's own reader as one that consumes its
				// declared length, whatever the block holds
				c.Rec.Violation("jpeg:lib-exif-consumption", fmt.Sprintf("the library's own Exif reader consumed %d of the %d bytes declared for its APP1 block (returned %v)", cr.n, h.ExifLength, err), map[string]any{"consumed": cr.n, "declared": h.ExifLength, "error": fmt.Sprint(err)})
			}
			got = append(got, cb)
			return nil
		default:
			buf := make([]byte, h.ExifLength)
			n := 0
			for n < len(buf) {
				step := len(buf) - n
				if exifMode == 0 {
					step = r.Range(1, step)
				}
				k, err := rd.Read(buf[n : n+step])
				n += k
				if err != nil {
					break
				}
			}
			cb.bytes, cb.readOK = buf[:n], n == len(buf)
		}
		got = append(got, cb)
		return nil
	}
	xmpCb := func(rd io.Reader) error {
		cb := c10cb{kind: "xmp"}
		switch xmpMode {
		case 0:
			cb.note = "none"
		case 1:
			buf := make([]byte, r.Range(1, 200))
			n, _ := io.ReadFull(rd, buf)
			cb.bytes, cb.note = buf[:n], "prefix"
		case 2:
			b, err := io.ReadAll(rd)
			cb.bytes, cb.readOK, cb.note = b, err == nil, "all"
		case 4:
			// io.Copy prefers the source's WriterTo (and the destination's ReaderFrom): whatever
			// path it takes, the packet is what arrives
			var bb bytes.Buffer
			_, err := io.Copy(struct{ io.Writer }{&bb}, rd)
			cb.bytes, cb.readOK, cb.note = bb.Bytes(), err == nil, "all"
		case 5:
			// the reader's optional interfaces, where it offers them, are bounded like Read
			var all []byte
			ok := true
			if br, is := rd.(io.ByteReader); is {
				for {
					b, err := br.ReadByte()
					if err != nil {
						ok = err == io.EOF
						break
					}
					all = append(all, b)
					if len(all) > 1<<20 {
						ok = false
						break
					}
				}
			} else if pd, is := rd.(interface {
				Peek(int) ([]byte, error)
				Discard(int) (int, error)
			}); is {
				for {
					pk, err := pd.Peek(512)
					all = append(all, pk...)
					_, _ = pd.Discard(len(pk))
					if err != nil || len(pk) == 0 || len(all) > 1<<20 {
						ok = len(all) <= 1<<20
						break
					}
				}
			} else {
				b, err := io.ReadAll(rd)
				all, ok = b, err == nil
			}
			cb.bytes, cb.readOK, cb.note = all, ok, "all"
		default:
			var all []byte
			buf := make([]byte, r.Pick(1, 3, 7, 333, 4097))
			for {
				n, err := rd.Read(buf)
				all = append(all, buf[:n]...)
				if err != nil {
					cb.readOK = err == io.EOF
					break
				}
			}
			cb.bytes, cb.note = all, "all"
		}
		got = append(got, cb)
		return nil
	}
	var rd io.Reader = mon.NewRS(j.Bytes)
	embedAt := 0
	if readerKind == 0 && r.Chance(1, 4) {
		// the stream is part of a larger seekable object (a preview inside a raw file, the second
		// picture of a multi-picture file): the reader is positioned at its first byte, offsets are
		// counted from there
		embedAt = r.Pick(1, 2, 512, 4095, 4096, 4660, 70000)
		rs := mon.NewRS(append(r.Bytes(embedAt), j.Bytes...))
		rs.Pos = int64(embedAt)
		rd = rs
	}
	switch readerKind {
	case 1:
		rd = bufio.NewReaderSize(rd, 64)
	case 2:
		rd = bufio.NewReaderSize(rd, r.Pick(4096, 4097, 8192, 70000))
	}
	desc := fmt.Sprintf("pattern=%s exifMode=%d xmpMode=%d reader=%d len=%d embedded_at=%d", pattern, exifMode, xmpMode, readerKind, len(j.Bytes), embedAt)
	c.SetPhase(desc)
	dumpInput(c, "ScanJPEG", j.Bytes)
	// a caller may pass nil for either callback: those segments are then skipped like any other,
	// the other kind is still delivered
	nilExif, nilXMP := false, false
	switch r.Intn(10) {
	case 0:
		nilExif = true
	case 1:
		nilXMP = true
	}
	if nilExif || nilXMP {
		var w2 []gen.Seg
		for _, sg := range want {
			if (sg.Kind == "exif" && nilExif) || (sg.Kind == "xmp" && nilXMP) {
				continue
			}
			w2 = append(w2, sg)
		}
		want = w2
		desc += fmt.Sprintf(" nilExif=%v nilXMP=%v", nilExif, nilXMP)
	}
	var err error
	pk, key, text := core.Guard(func() {
		switch {
		case nilExif:
			err = jpeg.ScanJPEG(rd, nil, xmpCb)
		case nilXMP:
			err = jpeg.ScanJPEG(rd, exifCb, nil)
		default:
			err = jpeg.ScanJPEG(rd, exifCb, xmpCb)
		}
	})
	c.Rec.Eval(1)
	viol := func(key, msg string) {
		c.Rec.Violation(key, msg+" ("+desc+")", map[string]any{"case": desc, "segments": segSummary(j.Segs)})
	}
	if pk {
		viol("jpeg:"+key, "ScanJPEG panicked on a well-formed marker stream: "+firstLineOf(text))
		return
	}
	if err != nil {
		viol("jpeg:error", fmt.Sprintf("ScanJPEG returned %v on a well-formed marker stream", err))
	}
	if len(got) != len(want) {
		viol("jpeg:callbacks", fmt.Sprintf("%d callbacks for %d metadata segments", len(got), len(want)))
		return
	}
	for i, w := range want {
		g := got[i]
		if g.kind != w.Kind {
			viol("jpeg:callback-kind", fmt.Sprintf("callback %d is %s, segment is %s", i, g.kind, w.Kind))
			continue
		}
		if w.Kind == "exif" {
			tiff := w.Payload[6:]
			big := tiff[0] == 'M'
			bo, o := utils.LittleEndian, binary.ByteOrder(binary.LittleEndian)
			if big {
				bo, o = utils.BigEndian, binary.BigEndian
			}
			validSig := bytes.HasPrefix(tiff, []byte("II*\x00")) || bytes.HasPrefix(tiff, []byte("MM\x00*"))
			if validSig && g.hdr.ByteOrder != bo {
				viol("jpeg:exif-byteorder", fmt.Sprintf("Exif callback %d byte order %v want %v", i, g.hdr.ByteOrder, bo))
			}
			if validSig && g.hdr.FirstIfdOffset != o.Uint32(tiff[4:]) {
				viol("jpeg:exif-firstifd", fmt.Sprintf("Exif callback %d first-IFD offset %d want %d", i, g.hdr.FirstIfdOffset, o.Uint32(tiff[4:])))
			}
			if int(g.hdr.TiffHeaderOffset) != w.Off+10 {
				viol("jpeg:exif-offset", fmt.Sprintf("Exif callback %d absolute TIFF offset %d want %d", i, g.hdr.TiffHeaderOffset, w.Off+10))
			}
			if int(g.hdr.ExifLength) != len(tiff) {
				viol("jpeg:exif-length", fmt.Sprintf("Exif callback %d length %d want %d", i, g.hdr.ExifLength, len(tiff)))
			}
			if exifMode != 1 && !bytes.Equal(g.bytes, tiff) {
				viol("jpeg:exif-bytes", fmt.Sprintf("Exif callback %d read %d bytes that differ from the %d-byte payload", i, len(g.bytes), len(tiff)))
			}
		} else {
			pkt := w.Payload[len(gen.XMPPrefix):]
			switch g.note {
			case "prefix":
				if !bytes.HasPrefix(pkt, g.bytes) || (len(g.bytes) < len(pkt) && len(g.bytes) == 0) {
					viol("jpeg:xmp-bytes", fmt.Sprintf("XMP callback %d prefix read differs from the packet", i))
				}
			case "all":
				if !bytes.Equal(g.bytes, pkt) {
					viol("jpeg:xmp-bytes", fmt.Sprintf("XMP callback %d yielded %d bytes, packet has %d (or content differs)", i, len(g.bytes), len(pkt)))
				}
				if !g.readOK {
					viol("jpeg:xmp-eof", fmt.Sprintf("XMP callback %d reader did not end with a clean EOF", i))
				}
			}
		}
	}
	if len(want) >= 1 && len(j.Segs)-len(want) >= 2 {
		c.Rec.Sig(fmt.Sprintf("%s|%d|%d|%d", pattern, exifMode, xmpMode, readerKind))
	}
	c.Rec.Count("callbacks_checked", int64(len(want)))
	if c.Rec.WantSample() && idx%211 == 7 {
		c.Rec.Sample(map[string]any{"case": desc, "segments": segSummary(j.Segs)})
	}
}

func segSummary(segs []gen.Seg) []string {
	var out []string
	for _, s := range segs {
		out = append(out, fmt.Sprintf("FF%02X@%d len=%d %s", s.Marker, s.Off, len(s.Payload)+2, s.Kind))
	}
	return out
}

// CPUBudget: a case is one scan of a stream of at most ~200 KiB; seconds of CPU mean a hang.
func (e *C10) CPUBudget(tier string, idx int) time.Duration { return 5 * time.Second }

type countingReader struct {
	r io.Reader
	n int64
}

func (c *countingReader) Read(p []byte) (int, error) {
	n, err := c.r.Read(p)
	c.n += int64(n)
	return n, err
}

// rootDirInside reports whether the first directory of the TIFF block (entry count, entries
// and the next-directory pointer) lies inside the block, with a count the reader accepts.
func rootDirInside(tiff []byte, h meta.ExifHeader) bool {
	if len(tiff) != int(h.ExifLength) || len(tiff) < 8 {
		return false
	}
	var o binary.ByteOrder = binary.LittleEndian
	if tiff[0] == 'M' {
		o = binary.BigEndian
	}
	off := int(o.Uint32(tiff[4:]))
	if off < 8 || off+2 > len(tiff) {
		return false
	}
	n := int(o.Uint16(tiff[off:]))
	return n >= 1 && n <= 128 && off+2+12*n+4 <= len(tiff)
}

// countingBuffered counts what is consumed through a Peek/Discard/Read reader.
type countingBuffered struct {
	br exif2.BufferedReader
	n  int64
}

func (c *countingBuffered) Peek(n int) ([]byte, error) { return c.br.Peek(n) }
func (c *countingBuffered) Discard(n int) (int, error) {
	d, err := c.br.Discard(n)
	c.n += int64(d)
	return d, err
}
func (c *countingBuffered) Read(p []byte) (int, error) {
	n, err := c.br.Read(p)
	c.n += int64(n)
	return n, err
}
