package props

import (
	"bufio"
	"encoding/binary"
	"fmt"
	"github.com/evanoberholster/imagemeta"
	"github.com/evanoberholster/imagemeta/exif2"

	"github.com/evanoberholster/imagemeta/imagetype"
	"github.com/evanoberholster/imagemeta/meta"
	"github.com/evanoberholster/imagemeta/meta/utils"
	"github.com/evanoberholster/imagemeta/tiff"

	"verif/harness/internal/core"
	"verif/harness/internal/gen"
	"verif/harness/internal/mon"
)

// C12 — TIFF header search reports the first signature at any offset, exactly.
type C12 struct{}

var c12Alphabet = []byte{'I', 'M', '*', 0x00, 'x'}

const c12Block = 625 // prefixes per case (5^4)

func (e *C12) ID() string    { return "C12" }
func (e *C12) Level() string { return "exploration" }
func (e *C12) Rule() string {
	return "section A (exhaustive): every prefix over the signature alphabet {I, M, *, 0x00, other} of length 0..7 (quick) / 0..10 (thorough), followed by an II or MM header with a random first-IFD offset (a sixth of them 0, 1, 7, 8, 2^31, 2^32-1 or signature-like values) and >= 28 further bytes, searched through a *bufio.Reader (sizes 32, 33, 64, 4096) and through a plain reader; section B: random prefixes up to 16 KiB built from alphabet runs and random bytes, with the signature placed at every offset 4060..4100 and 8150..8200 (buffer refill boundaries), streams without any signature, and streams whose only signature has fewer than 28 bytes after it. every eighth case of section B instead builds a stream that sniffs as Panasonic RW2 or HEIF, 0..4090 filler bytes and a small complete block, and requires Decode, DecodeTiff, DecodeHeif and exif2.Parse - the entry points that locate the block by this search - to report its Make; section C (exhaustive): every single-byte variation of II*\\0 and MM\\0* as a near miss in front of a real header and in a stream without one; section D: streams of 64 KiB to 3 MiB that start like a HEIF / JPEG / RW2 / CR3 file or with random bytes, the signature behind them; the image-type argument is varied (it labels the result and must not steer the search). Oracle: a naive search of the same bytes in the harness gives the first signature index; the reported TiffHeaderOffset, byte order and FirstIfdOffset must match it, the bufio.Reader must afterwards stand exactly on the reported signature - and, for a quarter of the streams, still do so after two overlapping searches on an unrelated stream (the second started from inside a Read of the first) - and ErrNoExif is returned exactly when no signature has 28 bytes after it. Non-trivial: the prefix contains a proper partial signature; distinct = distinct (prefix, header) for section A, (offset, buffer size) for B."
}
func (e *C12) Assumptions() []string {
	return []string{"bufio.Reader arguments have a buffer of at least 32 bytes (the search peeks 32)"}
}
func (e *C12) Exhaustive(tier string) bool { return true }

func c12MaxLen(tier string) int {
	if tier == "thorough" {
		return 10
	}
	return 7
}

func pow5(n int) int {
	p := 1
	for i := 0; i < n; i++ {
		p *= 5
	}
	return p
}

// number of prefixes of length 0..L
func c12Total(L int) int {
	t := 0
	for l := 0; l <= L; l++ {
		t += pow5(l)
	}
	return t
}

const (
	c12Near = 16 // 2 signatures x 4 positions x 256 values, 128 per case
	c12Long = 24 // streams of 64 KiB .. 3 MiB
)

func (e *C12) Plan(tier string, seed uint64) int {
	nA := (c12Total(c12MaxLen(tier)) + c12Block - 1) / c12Block
	nB := 600
	if tier == "thorough" {
		nB = 12000
	}
	return nA + nB + c12Near + c12Long
}
func (e *C12) MinNontrivial(tier string) int { return 1000 }

func prefixByIndex(k int) []byte {
	// enumerate by length, then base-5 digits
	l := 0
	for k >= pow5(l) {
		k -= pow5(l)
		l++
	}
	p := make([]byte, l)
	for i := l - 1; i >= 0; i-- {
		p[i] = c12Alphabet[k%5]
		k /= 5
	}
	return p
}

func hasPartial(p []byte) bool {
	for _, c := range p {
		if c == 'I' || c == 'M' {
			return true
		}
	}
	return false
}

// c12Other is an unrelated stream searched between a search and the use of its result.
var c12Other = append([]byte("zzzzzzzzzMzIzMM\x00*\x00\x00\x00\x10"), make([]byte, 300)...)

func c12Check(c *core.Ctx, stream []byte, what string) {
	want := gen.FirstTIFFSig(stream)
	wantErr := want < 0 || len(stream)-want < 32
	check := func(name string, h meta.ExifHeader, err error, br *bufio.Reader) {
		c.Rec.Eval(1)
		viol := func(key, msg string) {
			c.Rec.Violation(key, fmt.Sprintf("%s (%s): %s", name, what, msg), map[string]any{"reader": name, "stream_head_hex": fmt.Sprintf("%x", stream[:min(len(stream), 64)]), "stream_len": len(stream), "first_signature_at": want})
		}
		if wantErr {
			if err != meta.ErrNoExif {
				viol("tiffscan:noexif", fmt.Sprintf("expected ErrNoExif (first signature at %d of %d bytes), got offset %d err %v", want, len(stream), h.TiffHeaderOffset, err))
			}
			return
		}
		if err != nil {
			viol("tiffscan:missed", fmt.Sprintf("signature at %d not found: %v", want, err))
			return
		}
		if int(h.TiffHeaderOffset) != want {
			viol("tiffscan:offset", fmt.Sprintf("reported offset %d, first signature is at %d", h.TiffHeaderOffset, want))
			return
		}
		big := stream[want] == 'M'
		wantBO := utils.LittleEndian
		var o binary.ByteOrder = binary.LittleEndian
		if big {
			wantBO, o = utils.BigEndian, binary.BigEndian
		}
		if h.ByteOrder != wantBO {
			viol("tiffscan:byteorder", fmt.Sprintf("byte order %v, want %v", h.ByteOrder, wantBO))
		}
		if h.FirstIfdOffset != o.Uint32(stream[want+4:]) {
			viol("tiffscan:firstifd", fmt.Sprintf("first-IFD offset %d, want %d", h.FirstIfdOffset, o.Uint32(stream[want+4:])))
		}
		if br != nil {
			nx, _ := br.Peek(8)
			if len(nx) < 8 || string(nx) != string(stream[want:want+8]) {
				viol("tiffscan:position", fmt.Sprintf("reader not positioned on the reported header: next bytes %x, header %x", nx, stream[want:want+8]))
			} else if (len(stream)+want)%4 == 0 {
				// the caller's reader stays positioned while other streams are searched (two searches
				// in flight at once, the second started from inside a Read of the first)
				rs := mon.NewRS(c12Other)
				done := false
				rs.Yield = func() {
					if !done {
						done = true
						_, _ = tiff.ScanTiffHeader(mon.NewRS(c12Other), imagetype.ImageUnknown)
					}
				}
				_, _ = tiff.ScanTiffHeader(rs, imagetype.ImageUnknown)
				nx, _ = br.Peek(8)
				if len(nx) < 8 || string(nx) != string(stream[want:want+8]) {
					viol("tiffscan:position-after-other-calls", fmt.Sprintf("after searches on other streams the caller's reader no longer stands on the reported header: next bytes %x, header %x", nx, stream[want:want+8]))
				}
			}
		}
	}
	its := []imagetype.ImageType{imagetype.ImageUnknown, imagetype.ImageHEIF, imagetype.ImageTiff, imagetype.ImageCR2, imagetype.ImagePanaRAW, imagetype.ImageJPEG}
	for i, sz := range []int{32, 33, 64, 4096} {
		if len(stream) > 1<<17 && sz < 4096 {
			continue // long streams: one buffered and one plain search
		}
		br := bufio.NewReaderSize(mon.NewRS(stream), sz)
		it := its[(i+len(stream))%len(its)] // the image-type argument is a label for the result, not a search parameter
		h, err := tiff.ScanTiffHeader(br, it)
		check(fmt.Sprintf("bufio(%d) it=%v", sz, it), h, err, br)
	}
	h, err := tiff.ScanTiffHeader(mon.OnlyReader{R: mon.NewRS(stream)}, imagetype.ImageHEIF)
	check("plain reader", h, err, nil)
}

func (e *C12) Run(c *core.Ctx, idx int) {
	L := c12MaxLen(c.Tier)
	total := c12Total(L)
	nA := (total + c12Block - 1) / c12Block
	r := c.Rng(idx)
	mkHeader := func(big bool) []byte {
		h := make([]byte, 8)
		off := r.U32()
		if r.Bool() {
			off = uint32(r.Range(8, 4000))
		}
		if r.Chance(1, 6) {
			// the stored first-directory offset is a value like any other: its extremes are reported,
			// not interpreted
			off = uint32(r.Pick(0, 0, 1, 7, 8, 0xffffffff, 0x80000000, 0x2a, 0x4949, 0x4d4d))
		}
		if big {
			copy(h, "MM\x00*")
			binary.BigEndian.PutUint32(h[4:], off)
		} else {
			copy(h, "II*\x00")
			binary.LittleEndian.PutUint32(h[4:], off)
		}
		return h
	}
	if idx < nA {
		for k := idx * c12Block; k < (idx+1)*c12Block && k < total; k++ {
			p := prefixByIndex(k)
			for _, big := range []bool{false, true} {
				s := append(append([]byte(nil), p...), mkHeader(big)...)
				rest := r.Bytes(r.Range(28, 60))
				gen.ScrubTIFFSig(rest, 0, len(rest))
				s = append(s, rest...)
				c12Check(c, s, fmt.Sprintf("prefix %q + %s header", p, boName(big)))
			}
			if hasPartial(p) {
				c.Rec.SigHash(core.HashStr(string(p)))
			}
		}
		if c.Rec.WantSample() && idx%13 == 5 {
			c.Rec.Sample(map[string]any{"kind": "exhaustive prefixes", "first_prefix": fmt.Sprintf("%q", prefixByIndex(idx*c12Block)), "count": c12Block, "headers": "II and MM"})
		}
		return
	}
	nB := e.Plan(c.Tier, c.Seed) - nA - c12Near - c12Long
	if idx >= nA+nB+c12Near {
		// section D: long streams (a search must not give up, whatever the stream starts with)
		k := idx - nA - nB - c12Near
		n := []int{65536, 1<<20 - 40, 1 << 20, 1<<20 + 31, 1<<20 + 4097, 3 << 20}[k%6]
		heads := []string{"", "\x00\x00\x00\x18ftypheic\x00\x00\x00\x00mif1heic\x00\x00\x00\x08free", "\x00\x00\x00\x1cftypmif1\x00\x00\x00\x00mif1heic", "\xff\xd8\xff\xe0\x00\x10JFIF", "IIU\x00\x18\x00\x00\x00", "\x00\x00\x00\x18ftypcrx \x00\x00\x00\x01crx isom"}
		pre := make([]byte, n)
		fill := r.Bytes(4096)
		for i := 0; i < n; i += 4096 {
			copy(pre[i:], fill)
		}
		copy(pre, heads[(k/6)%len(heads)])
		gen.ScrubTIFFSig(pre, 0, len(pre))
		s := append(pre, mkHeader(k%2 == 0)...)
		tail := r.Bytes(64)
		gen.ScrubTIFFSig(tail, 0, len(tail))
		c12Check(c, append(s, tail...), fmt.Sprintf("long stream: %d bytes (head %q) before the signature", n, heads[(k/6)%len(heads)]))
		c.Rec.SigHash(core.HashStr(fmt.Sprintf("D|%d|%d", n, (k/6)%len(heads))))
		return
	}
	if idx >= nA+nB {
		// section C (exhaustive): every single-byte variation of both signatures, as a near miss in
		// front of a real header and alone in a stream without any signature
		k := idx - nA - nB
		for j := k * 128; j < (k+1)*128; j++ {
			sig := []byte("II*\x00")
			if j/1024 == 1 {
				sig = []byte("MM\x00*")
			}
			pos, val := (j%1024)/256, byte(j%256)
			if sig[pos] == val {
				continue
			}
			near := append([]byte(nil), sig...)
			near[pos] = val
			body := r.Bytes(40)
			gen.ScrubTIFFSig(body, 0, len(body))
			lead := r.Bytes(r.Intn(9))
			gen.ScrubTIFFSig(lead, 0, len(lead))
			pre := append(append(lead, near...), body...)
			gen.ScrubTIFFSig(pre[len(lead)+1:], 0, len(pre)-len(lead)-1) // a variation may itself complete a signature with what follows
			s := append(append([]byte(nil), pre...), mkHeader(j%2 == 0)...)
			rest := r.Bytes(40)
			gen.ScrubTIFFSig(rest, 0, len(rest))
			c12Check(c, append(s, rest...), fmt.Sprintf("near miss %q before the header", near))
			c12Check(c, append(append([]byte(nil), pre...), rest...), fmt.Sprintf("near miss %q, no signature", near))
			c.Rec.SigHash(core.HashStr(fmt.Sprintf("C|%x", near)))
		}
		return
	}
	// section B
	k := idx - nA
	if k%8 == 5 {
		// the entry points that locate the block by this search agree with it: a stream that the
		// sniffer takes for a TIFF-family or HEIF file, some filler, then a small complete block
		heads := [][]byte{
			append([]byte("II\x55\x00\x18\x00\x00\x00\x88\xe7\x74\xd8"), make([]byte, 12)...), // Panasonic RW2
			[]byte("\x00\x00\x00\x18ftypheic\x00\x00\x00\x00mif1heic"),                        // HEIF
			[]byte("\x00\x00\x00\x18ftypmif1\x00\x00\x00\x00mif1heic"),                        // HEIF, generic major brand
		}
		h := append([]byte(nil), heads[(k/8)%len(heads)]...)
		if h[4] == 'f' && r.Bool() {
			// the size the ftyp box announces is not the search's business: it may cover the filler,
			// the block, or more than the stream holds
			binary.BigEndian.PutUint32(h, uint32(r.Pick(0x19, 0x20, 0x40, 0x1000, 0x2000, 0xffff))) // (sizes the sniffer still takes for an ftyp box: two leading zero bytes)
		}
		fillN := r.Pick(0, 1, 2, 3, 24, 100, 301, 4090)
		filler := r.Bytes(fillN)
		gen.ScrubTIFFSig(filler, 0, len(filler))
		block := []byte("II*\x00\x08\x00\x00\x00\x01\x00\x0f\x01\x02\x00\x06\x00\x00\x00\x1a\x00\x00\x00\x00\x00\x00\x00Canon\x00")
		if r.Bool() {
			block = []byte("MM\x00*\x00\x00\x00\x08\x00\x01\x01\x0f\x00\x02\x00\x00\x00\x06\x00\x00\x00\x1a\x00\x00\x00\x00Canon\x00")
		}
		stream := append(append(append([]byte(nil), h...), filler...), block...)
		stream = append(stream, make([]byte, 64)...)
		what := fmt.Sprintf("head %q + %d filler bytes + block", h[:12], fillN)
		for _, ep := range []struct {
			name string
			run  func() (exif2.Exif, error)
		}{
			{"Decode", func() (exif2.Exif, error) { return imagemeta.Decode(mon.NewRS(stream)) }},
			{"DecodeTiff", func() (exif2.Exif, error) { return imagemeta.DecodeTiff(mon.NewRS(stream)) }},
			{"DecodeHeif", func() (exif2.Exif, error) { return imagemeta.DecodeHeif(mon.NewRS(stream)) }},
			{"exif2.Parse", func() (exif2.Exif, error) { return exif2.Parse(mon.NewRS(stream)) }},
			{"exif2.Parse/positioned", func() (exif2.Exif, error) {
				// the stream starts where the reader stands (the rest of a larger object)
				k := 1 + fillN%97
				junk := make([]byte, k)
				rs := mon.NewRS(append(junk, stream...))
				rs.Pos = int64(k)
				return exif2.Parse(rs)
			}},
			{"exif2.Parse/positioned-far", func() (exif2.Exif, error) {
				// the same, with the reader standing at or beyond 2 GiB / 4 GiB of a very large object
				// (positions are 64-bit; the header offset the search reports is relative to them)
				base := []int64{1<<31 - 3, 1 << 31, 1<<32 - 4, 1<<32 - int64(len(h)) - int64(fillN) - 2, 1 << 32, 5 << 30, 1<<40 + 7}[fillN%7]
				return exif2.Parse(&mon.FarRS{Base: base, Data: stream, Pos: base})
			}},
		} {
			var ex exif2.Exif
			var err error
			pk, _, text := core.Guard(func() { ex, err = ep.run() })
			c.Rec.Eval(1)
			if pk || err != nil || ex.Make != "Canon" {
				c.Rec.Violation("tiffscan:entrypoint:"+ep.name, fmt.Sprintf("%s on a stream whose first signature starts a complete block (%s): Make=%q err=%v %s", ep.name, what, ex.Make, err, firstLineOf(text)), map[string]any{"entry": ep.name, "stream": what})
			}
		}
		c12Check(c, stream, what)
		c.Rec.SigHash(core.HashStr(fmt.Sprintf("E|%d|%d", (k/8)%len(heads), fillN)))
		return
	}
	n := r.Range(0, 16384)
	var pre []byte
	switch k % 4 {
	case 0:
		pre = r.Bytes(n)
	case 1:
		pre = make([]byte, n)
		for i := range pre {
			pre[i] = c12Alphabet[r.Intn(5)]
		}
	case 2: // exact placement around refill boundaries
		at := []int{4060 + k/4%41, 8150 + k/4%51}[k/4%2]
		pre = make([]byte, at)
		for i := range pre {
			pre[i] = c12Alphabet[r.Intn(4)]
		}
	default:
		pre = make([]byte, n)
		for i := range pre {
			pre[i] = []byte("IIMM*\x00")[r.Intn(6)]
		}
	}
	gen.ScrubTIFFSig(pre, 0, len(pre))
	switch r.Intn(8) {
	case 0: // no signature at all
		c12Check(c, append(pre, 'I', 'I'), fmt.Sprintf("no signature, %d bytes", len(pre)))
	case 1: // signature too close to the end
		s := append(append([]byte(nil), pre...), mkHeader(r.Bool())...)
		tail := r.Bytes(r.Range(0, 23))
		gen.ScrubTIFFSig(tail, 0, len(tail))
		c12Check(c, append(s, tail...), fmt.Sprintf("signature at %d with %d bytes after it", len(pre), 4+len(tail)))
	default:
		s := append(append([]byte(nil), pre...), mkHeader(r.Bool())...)
		tail := r.Bytes(r.Range(24, 5000)) // may contain later signatures: only the first counts
		c12Check(c, append(s, tail...), fmt.Sprintf("random prefix kind %d, signature expected near %d", k%4, len(pre)))
	}
	c.Rec.SigHash(core.HashStr(fmt.Sprintf("B|%d|%d", len(pre), k%4)))
}
