package props

import (
	"fmt"
	"github.com/evanoberholster/imagemeta/imagetype"

	"verif/harness/internal/core"
	"verif/harness/internal/gen"
	"verif/harness/internal/obs"
)

func drawWithinLimits(r *core.Rng, slotty, boundary bool) (*exifCase, bool) {
	for try := 0; try < 8; try++ {
		ec := drawExifCase(r, slotty, boundary && try < 4)
		b := ec.build(false, true)
		if ec.class == "many-pending" && r.Bool() {
			// exactly at the documented capacity: unknown out-of-line entries are added to the Exif
			// directory until the pending-table model reads 84 (one more would be one too many)
			gen.DropForeignAbove(ec.rec.Exif) // the entry added last (the one lost when a slot is missing) is a known one
			b = ec.build(false, true)
			for k := 0; k < 90 && b.MaxPending < 84; k++ {
				ec.rec.Exif.Add(uint16(0x7000+k), gen.ASCII("filler-value-"+fmt.Sprint(k)))
				ec.rec.Exif.Sort()
				b = ec.build(false, true)
			}
			if b.MaxPending == 84 {
				ec.class = "exactly-84-pending"
				ec.desc += " topped-up-to-84"
			}
		}
		if withinLimits(b) {
			return ec, true
		}
	}
	return nil, false
}

// C03 — Exif fields of a well-formed file are extracted with their exact values.
type C03 struct{}

func (e *C03) ID() string    { return "C03" }
func (e *C03) Level() string { return "exploration" }
func (e *C03) Rule() string {
	return "each case draws a logical record m (random subset of the reported fields with in-range values, appendix A of DESIGN.md), interleaves foreign tags (unknown ids; valid and invalid field types; embedded, out-of-line and multi-KiB values), picks a forward layout L (byte order, block order: depth-first / children-first / random topological, padding 0..64 incl. odd, first-IFD offset 8 or larger, boundary layouts: exactly 128 entries, many pending references, big foreign values) within the documented limits (<=128 entries, <=84 pending), serialises it with the harness's own TIFF writer and decodes it through imagemeta.Decode, DecodeTiff and exif2.Parse from pristine state. Oracle: the reference expectation computed from m per the Exif/TIFF specification (exact strings/integers, rationals as float32(n)/float32(d) +-1ulp, GPS float64 rel 1e-12, timestamps as wall clock + offset + instant; zone names not compared), absent fields = zero values, error must be nil. Non-trivial: >=3 populated fields; distinct = (field-set hash, layout class, byte order, entry point)."
}
func (e *C03) Assumptions() []string {
	return []string{"well-formed = what the generator emits: ascending tag order, count/offset consistent, ASCII values NUL terminated without leading/trailing blanks and <= 1000 bytes, twin source tags (Artist/OwnerName, serials, dimensions) absent or equal",
		"Make aliases (NIKON CORPORATION, SONY, HUAWEI) may be reported raw or as the documented canonical name; known Canon/Apple model names raw or canonical",
		"the name->enum tables for camera models are the library's own published tables"}
}
func (e *C03) Plan(tier string, seed uint64) int {
	if tier == "thorough" {
		return 1500000
	}
	return 40000
}
func (e *C03) MinNontrivial(tier string) int { return 200 }

func (e *C03) Run(c *core.Ctx, idx int) {
	r := c.Rng(idx)
	ec, ok := drawWithinLimits(r, idx%5 == 0, idx%4 == 1)
	if !ok {
		c.Rec.Inconcl("generator could not produce a layout within the documented limits")
		return
	}
	big := r.Bool()
	bt := ec.build(big, true)
	c.Rec.Max("pending_refs", float64(bt.MaxPending))
	c.Rec.Max("entries_per_dir", float64(bt.MaxEntries))
	c.Rec.Max("file_len", float64(len(bt.Bytes)))
	for _, d := range []decodeFn{dDecode, dDecodeTiff, dParse} {
		dumpInput(c, d.name, bt.Bytes)
		got, errS, ok := pristineDecode(c, d, bt.Bytes)
		if !ok {
			continue
		}
		var bad []string
		if errS != "nil" {
			bad = append(bad, "error: "+errS)
		}
		bad = append(bad, ec.rec.Exp.Compare(got)...)
		wantType := "u:8" // image/tiff
		if ec.rec.DNG {
			wantType = fmt.Sprintf("u:%d", int(imagetype.ImageDNG)) // a TIFF with a DNGVersion tag
		} else if ec.rec.NoteTags > 0 {
			wantType = fmt.Sprintf("u:%d", int(imagetype.ImageNEF)) // a TIFF with a Nikon type-3 maker note
		}
		if ec.rec.NoteTags > 0 && !ec.rec.DNG && got["Exif.ImageType"] == "u:8" {
			// the note is only followed when the Make value was read before it (a forward-only
			// reader): in the other layouts the file stays a plain TIFF
			wantType = "u:8"
		}
		if got["Exif.ImageType"] != wantType && !ec.rec.Exp.Any["Exif.ImageType"] {
			bad = append(bad, "Exif.ImageType: got "+got["Exif.ImageType"]+" want "+wantType+" (image/tiff; image/x-adobe-dng with a DNGVersion tag)")
		}
		if len(bad) > 0 {
			key := "value:" + firstField(bad[0])
			c.Rec.Violation(key, fmt.Sprintf("%s of a well-formed %s TIFF (%s): %s", d.name, boName(big), ec.desc, joinMax(bad, 4)),
				map[string]any{"entry": d.name, "big_endian": big, "case": ec.desc, "mismatches": bad, "file_len": len(bt.Bytes)})
		}
		if len(ec.rec.Exp.Names) >= 3 {
			c.Rec.Sig(fieldSig(ec.rec.Exp.Names) + "|" + ec.class + "|" + boName(big) + "|" + d.name)
		}
	}
	if c.Rec.WantSample() && idx%101 == 3 {
		c.Rec.Sample(map[string]any{"case": ec.desc, "big_endian": big, "fields": ec.rec.Exp.Names, "file_len": len(bt.Bytes), "max_pending": bt.MaxPending})
	}
}

func boName(big bool) string {
	if big {
		return "MM"
	}
	return "II"
}

func firstField(s string) string {
	for i := 0; i < len(s); i++ {
		if s[i] == ':' {
			return s[:i]
		}
	}
	return s
}

func joinMax(s []string, n int) string {
	out := ""
	for i, x := range s {
		if i >= n {
			out += fmt.Sprintf(" …(+%d)", len(s)-n)
			break
		}
		if i > 0 {
			out += "; "
		}
		out += x
	}
	return out
}

// C06 — the container does not change the metadata.
type C06 struct{}

func (e *C06) ID() string    { return "C06" }
func (e *C06) Level() string { return "exploration" }
func (e *C06) Rule() string {
	return "each case draws a well-formed Exif payload as in C03 (either byte order) and embeds the same payload in a bare TIFF, a JPEG APP1 segment (random APPn/COM/DRI/SOF/XMP segments around it, DQT and scan data after), a PNG eXIf chunk (random ancillary chunks, valid CRCs), the CMT1/CMT2/CMT4 boxes of a CR3 file (noise boxes, 32/64-bit sizes, xpacket/preview/mdat) and a HEIF-branded file (ftyp, meta{hdlr,pitm,iinf,iprp,iloc}, mdat with the Exif item). Every container is decoded through its decode entry points from pristine state. Oracle: the canonical observation minus ImageType must equal that of the bare TIFF and the C03 reference expectation; ImageType must be the container's type; errors must be nil. Non-trivial: >=3 populated fields; distinct = (container, entry, byte order, field-set hash)."
}
func (e *C06) Assumptions() []string {
	return []string{"payloads are limited to 64 KiB so that they fit a JPEG APP1 segment", "for CR3 the three directories are serialised as three TIFF blobs (that is how the format stores them)",
		"bytes before the payload in HEIF files are scrubbed of accidental TIFF signatures"}
}
func (e *C06) Plan(tier string, seed uint64) int {
	if tier == "thorough" {
		return 600000
	}
	return 12000
}
func (e *C06) MinNontrivial(tier string) int { return 200 }

func (e *C06) Run(c *core.Ctx, idx int) {
	r := c.Rng(idx)
	ec, ok := drawWithinLimits(r, idx%5 == 0, idx%6 == 1)
	if !ok {
		c.Rec.Inconcl("generator could not produce a layout within the documented limits")
		return
	}
	big := r.Bool()
	embs := embedAll(r, ec, big)
	var ref obs.Map
	for _, em := range embs {
		for _, d := range em.decs {
			dumpInput(c, em.name+"-"+d.name, em.bytes)
			got, errS, ok := pristineDecode(c, d, em.bytes)
			if !ok {
				continue
			}
			var bad []string
			if errS != "nil" {
				bad = append(bad, "error: "+errS)
			}
			// (a CR3 whose IFD0 is empty has a 14-byte CMT1 box, below the 16 bytes the CMT hand-off
			// needs to recognise a TIFF header; no field exists in that file, the type is then not asserted)
			wantIt := em.it
			if em.name == "TIFF" && ec.rec.DNG {
				wantIt = int(imagetype.ImageDNG)
			} else if em.name == "TIFF" && ec.rec.NoteTags > 0 {
				wantIt = int(imagetype.ImageNEF)
			}
			if em.name == "TIFF" && ec.rec.NoteTags > 0 && !ec.rec.DNG && got["Exif.ImageType"] == "u:8" {
				wantIt = 8 // the note is only followed when the Make value was read before it
			}
			if got["Exif.ImageType"] != fmt.Sprintf("u:%d", wantIt) && !(em.name == "CR3" && len(ec.rec.IFD0.Entries) == 0) && !ec.rec.Exp.Any["Exif.ImageType"] {
				bad = append(bad, fmt.Sprintf("Exif.ImageType: got %s want u:%d", got["Exif.ImageType"], wantIt))
			}
			bad = append(bad, ec.rec.Exp.Compare(got)...)
			g := got.Without("Exif.ImageType")
			if ref == nil {
				ref = g // bare TIFF through Decode
			} else if ds := obs.Diff(ref, g, 4); len(ds) > 0 {
				for _, x := range ds {
					bad = append(bad, "differs from bare TIFF: "+x)
				}
			}
			if len(bad) > 0 {
				key := "container:" + em.name + ":" + firstField(bad[0])
				c.Rec.Violation(key, fmt.Sprintf("%s of the %s embedding (%s payload, %s): %s", d.name, em.name, boName(big), ec.desc, joinMax(bad, 4)),
					map[string]any{"container": em.name, "entry": d.name, "big_endian": big, "case": ec.desc, "mismatches": bad})
			}
			if len(ec.rec.Exp.Names) >= 3 {
				c.Rec.Sig(em.name + "|" + d.name + "|" + boName(big) + "|" + fieldSig(ec.rec.Exp.Names))
			}
		}
	}
	if c.Rec.WantSample() && idx%53 == 3 {
		names := []string{}
		for _, em := range embs {
			names = append(names, fmt.Sprintf("%s(%d bytes)", em.name, len(em.bytes)))
		}
		c.Rec.Sample(map[string]any{"case": ec.desc, "big_endian": big, "containers": names, "fields": ec.rec.Exp.Names})
	}
}

// C07 — byte order is transparent.
type C07 struct{}

func (e *C07) ID() string    { return "C07" }
func (e *C07) Level() string { return "exploration" }
func (e *C07) Rule() string {
	return "each case draws a record and layout as in C03 with extra weight on values that live in the 4-byte slot (1-3 character ASCII, BYTE references, one or two SHORTs, SHORT-vs-LONG, embedded sub-second strings) and serialises it twice, little-endian (II) and big-endian (MM), from the same layout stream, so the pair differs in byte order only; both are embedded in the five containers with identical surroundings (same container stream) and decoded from pristine state. Oracle: canonical observations and errors of the pair are identical for every container and entry point. Non-trivial: >=3 populated fields; distinct = (container, entry, field-set hash)."
}
func (e *C07) Assumptions() []string {
	return []string{"the II and MM files are built from one logical record and one layout stream; foreign entries with invalid field types carry the same raw slot bytes in both"}
}
func (e *C07) Plan(tier string, seed uint64) int {
	if tier == "thorough" {
		return 600000
	}
	return 12000
}
func (e *C07) MinNontrivial(tier string) int { return 200 }

func (e *C07) Run(c *core.Ctx, idx int) {
	r := c.Rng(idx)
	ec, ok := drawWithinLimits(r, idx%2 == 0, idx%7 == 1)
	if !ok {
		c.Rec.Inconcl("generator could not produce a layout within the documented limits")
		return
	}
	if idx%5 == 2 {
		// the same numbers in another field type (SHORT as LONG, LONG as SHORT, BYTE as SHORT...):
		// what a reader makes of an unusual type is its business, but it must make the same of it in
		// both byte orders (this check compares the pair only, not the expectation)
		retypeEntries(r, ec.rec.IFD0)
		retypeEntries(r, ec.rec.Exif)
		retypeEntries(r, ec.rec.GPS)
		ec.desc += " retyped"
	}
	cs := r.U64()
	le := embedAll(core.NewRng(cs), ec, false)
	be := embedAll(core.NewRng(cs), ec, true)
	for i := range le {
		if le[i].name == "CR2" {
			continue // little-endian only
		}
		if i >= len(be) || le[i].name != be[i].name {
			c.Rec.Inconcl("container lists differ between byte orders")
			return
		}
		for k, d := range le[i].decs {
			dumpInput(c, le[i].name+"-II-"+d.name, le[i].bytes)
			dumpInput(c, be[i].name+"-MM-"+d.name, be[i].bytes)
			g1, e1, ok1 := pristineDecode(c, d, le[i].bytes)
			g2, e2, ok2 := pristineDecode(c, be[i].decs[k], be[i].bytes)
			if !ok1 || !ok2 {
				continue
			}
			var bad []string
			if e1 != e2 {
				bad = append(bad, fmt.Sprintf("error: II %s vs MM %s", e1, e2))
			}
			bad = append(bad, obs.Diff(g1, g2, 5)...)
			if len(bad) > 0 {
				key := "byteorder:" + le[i].name + ":" + firstField(bad[0])
				c.Rec.Violation(key, fmt.Sprintf("%s of the %s embedding differs between II and MM (%s): %s", d.name, le[i].name, ec.desc, joinMax(bad, 4)),
					map[string]any{"container": le[i].name, "entry": d.name, "case": ec.desc, "differences(II vs MM)": bad})
			}
			if len(ec.rec.Exp.Names) >= 3 {
				c.Rec.Sig(le[i].name + "|" + d.name + "|" + fieldSig(ec.rec.Exp.Names))
			}
		}
	}
	if c.Rec.WantSample() && idx%53 == 3 {
		c.Rec.Sample(map[string]any{"case": ec.desc, "fields": ec.rec.Exp.Names, "containers": len(le)})
	}
}

// retypeEntries rewrites some integer entries of d in another integer field type.
func retypeEntries(r *core.Rng, d *gen.Dir) {
	for i := range d.Entries {
		en := &d.Entries[i]
		if en.Child != nil || !r.Chance(1, 3) {
			continue
		}
		v := en.Val
		switch v.Type {
		case gen.TShort:
			if len(v.U16) == 0 {
				continue
			}
			switch r.Intn(3) {
			case 0: // LONG
				out := make([]uint32, len(v.U16))
				for k, x := range v.U16 {
					out[k] = uint32(x)
				}
				en.Val = gen.Long(out...)
			case 1: // BYTE (low bytes)
				out := make([]byte, len(v.U16))
				for k, x := range v.U16 {
					out[k] = byte(x)
				}
				en.Val = gen.ByteV(out...)
			default: // SSHORT
				en.Val = gen.Val{Type: 8, U16: v.U16}
			}
		case gen.TLong:
			if len(v.U32) == 0 {
				continue
			}
			if r.Bool() {
				out := make([]uint16, len(v.U32))
				for k, x := range v.U32 {
					out[k] = uint16(x)
				}
				en.Val = gen.Short(out...)
			} else {
				en.Val = gen.Val{Type: 9, U32: v.U32} // SLONG
			}
		case 5, 10: // RATIONAL, SRATIONAL: the same numbers as shorts, longs or bytes (same byte length)
			if len(v.Rat) == 0 {
				continue
			}
			switch r.Intn(4) {
			case 3: // the other signedness
				if v.Type == gen.TRational {
					en.Val = gen.SRational(v.Rat...)
				} else {
					en.Val = gen.Rational(v.Rat...)
				}
			case 0:
				var out []uint16
				for _, q := range v.Rat {
					out = append(out, uint16(q[0]>>16), uint16(q[0]), uint16(q[1]>>16), uint16(q[1]))
				}
				en.Val = gen.Short(out...)
			case 1:
				var out []uint32
				for _, q := range v.Rat {
					out = append(out, q[0], q[1])
				}
				en.Val = gen.Long(out...)
			default:
				var out []byte
				for _, q := range v.Rat {
					out = append(out, byte(q[0]>>24), byte(q[0]>>16), byte(q[0]>>8), byte(q[0]), byte(q[1]>>24), byte(q[1]>>16), byte(q[1]>>8), byte(q[1]))
				}
				en.Val = gen.ByteV(out...)
			}
		case gen.TByte:
			if len(v.B) == 0 {
				continue
			}
			out := make([]uint16, len(v.B))
			for k, x := range v.B {
				out[k] = uint16(x)
			}
			en.Val = gen.Short(out...)
		case gen.TASCII:
			// a short text written with a numeric type (the same numbers in both byte orders): a
			// reader may report it or not, but not as a different text per byte order
			switch len(v.B) {
			case 2:
				en.Val = gen.Short(uint16(v.B[0])<<8 | uint16(v.B[1]))
			case 4:
				if r.Bool() {
					en.Val = gen.Short(uint16(v.B[0])<<8|uint16(v.B[1]), uint16(v.B[2])<<8|uint16(v.B[3]))
				} else {
					en.Val = gen.Long(uint32(v.B[0])<<24 | uint32(v.B[1])<<16 | uint32(v.B[2])<<8 | uint32(v.B[3]))
				}
			}
		}
	}
}
