package props

import (
	"bytes"
	"fmt"
	"hash/fnv"
	"image"
	"math"
	"os"
	"os/exec"
	"strconv"
	"strings"
	"time"

	"github.com/evanoberholster/imagemeta"
	"github.com/evanoberholster/imagemeta/exif2"
	"github.com/evanoberholster/imagemeta/exif2/ifds"
	"github.com/evanoberholster/imagemeta/exif2/tag"
	"github.com/evanoberholster/imagemeta/imagehash"
	"github.com/evanoberholster/imagemeta/imagehash/transforms"
	"github.com/evanoberholster/imagemeta/imagehash/transforms32"
	"github.com/evanoberholster/imagemeta/imagetype"
	"github.com/evanoberholster/imagemeta/xmp"

	"verif/harness/internal/core"
	"verif/harness/internal/gen"
	"verif/harness/internal/mon"
	"verif/harness/internal/obs"
)

// First-call probes (C04): "whatever was decoded earlier in the same process" includes nothing
// at all. A probe is run in a process of its own (VERIF_PROBE=<kind>:<seed>), where the probed
// operation is the first thing the process asks of the library; it is repeated three times there
// and the three observations are printed. The parent compares them with each other and with its
// own (warm) observation of the same operation.

// ProbeKinds lists the operations probed.
// BurstKinds are the operations of C05's cold-start bursts (the probe kinds plus the preview).
var BurstKinds = append(append([]string{}, ProbeKinds...), "previewcr3", "zoneconflict", "zoneconflict")

var ProbeKinds = []string{"gray444", "gray420", "grayrgba", "phash", "dct2d", "dct64", "dct256", "dct2d256", "f64dct", "blurhash", "ahash", "decode", "parse", "parsexmp", "tagname", "sniff"}

func digestF32(p []float32) string {
	h := fnv.New64a()
	var b [4]byte
	for _, v := range p {
		u := math.Float32bits(v)
		b[0], b[1], b[2], b[3] = byte(u), byte(u>>8), byte(u>>16), byte(u>>24)
		h.Write(b[:])
	}
	return fmt.Sprintf("%016x", h.Sum64())
}

func digestF64(p []float64) string {
	h := fnv.New64a()
	var b [8]byte
	for _, v := range p {
		u := math.Float64bits(v)
		for i := 0; i < 8; i++ {
			b[i] = byte(u >> (8 * i))
		}
		h.Write(b[:])
	}
	return fmt.Sprintf("%016x", h.Sum64())
}

// probeOp returns the operation of a probe: every call must give the same observation.
func probeOp(kind string, seed uint64) func() string {
	r := core.NewRng(seed, 0x9b0be)
	size := r.Pick(64, 64, 256)
	img := func(k string) image.Image {
		return gen.MakeImage(r, gen.ImgSpec{Kind: k, W: size, H: size, Content: r.PickStr("noise", "photo", "gradient", "pixel")})
	}
	vec := func(n int) []float32 {
		x := make([]float32, n)
		for i := range x {
			x[i] = float32(r.Intn(256)) + float32(r.Float())
		}
		return x
	}
	switch kind {
	case "gray444", "gray420", "grayrgba":
		var im image.Image
		switch kind {
		case "gray444":
			im = img("ycbcr444")
		case "grayrgba":
			im = img("rgba")
		default:
			y := image.NewYCbCr(image.Rect(0, 0, size, size), image.YCbCrSubsampleRatio420)
			copy(y.Y, r.Bytes(len(y.Y)))
			copy(y.Cb, r.Bytes(len(y.Cb)))
			copy(y.Cr, r.Bytes(len(y.Cr)))
			im = y
		}
		return func() string {
			px := make([]float32, size*size)
			transforms32.ImageToGray(im, &px)
			px64 := make([]float64, size*size)
			transforms.Rgb2GrayFast(im, &px64)
			return digestF32(px) + "/" + digestF64(px64)
		}
	case "phash":
		im := img(r.PickStr("ycbcr444", "rgba", "gray", "nrgba"))
		return func() string { return hashObs(im) }
	case "dct2d":
		x := vec(4096)
		return func() string {
			in := append([]float32(nil), x...)
			out := transforms32.DCT2DHash64(in)
			return digestF32(out[:])
		}
	case "dct2d256":
		x := vec(65536)
		return func() string {
			in := append([]float32(nil), x...)
			out := transforms32.DCT2DHash256(&in)
			return digestF32(out[:])
		}
	case "dct64", "dct256":
		n := 64
		if kind == "dct256" {
			n = 256
		}
		x := vec(n)
		return func() string {
			in := append([]float32(nil), x...)
			if n == 64 {
				transforms32.ForwardDCT64(in)
			} else {
				transforms32.ForwardDCT256(in)
			}
			return digestF32(in)
		}
	case "f64dct":
		x := make([]float64, 65536)
		for i := range x {
			x[i] = float64(r.Intn(65536))
		}
		return func() string {
			a := append([]float64(nil), x[:4096]...)
			o64 := transforms.DCT2DHash64(&a)
			b := append([]float64(nil), x...)
			o256 := transforms.DCT2DHash256(&b)
			return digestF64(o64[:]) + "/" + digestF64(o256[:])
		}
	case "blurhash":
		im := img("rgba")
		return func() string {
			s, err := imagehash.EncodeBlurHashFast(im)
			return fmt.Sprintf("%s/%v", s, err)
		}
	case "ahash":
		im := img(r.PickStr("rgba", "gray"))
		return func() string {
			h, err := imagehash.NewAHash(im)
			return fmt.Sprintf("%v/%v", h, err)
		}
	case "decode", "parse", "sniff":
		files := gen.SynthFiles(seed%7, 1) // generated here, the same in the probe process and in the worker
		f := files[r.Intn(len(files))]
		return func() string {
			switch kind {
			case "decode":
				return exifObs(imagemeta.Decode(mon.NewRS(f.Data))) + exifObs(imagemeta.DecodeCR3(mon.NewRS(f.Data)))
			case "parse":
				return exifObs(exif2.Parse(mon.NewRS(f.Data)))
			default:
				t1, e1 := imagetype.Scan(mon.NewRS(f.Data))
				t2, e2 := imagetype.Buf(f.Data)
				return fmt.Sprint(t1, e1, t2, e2, t1.String(), t1.Extension(), imagetype.FromString(t1.String()))
			}
		}
	case "zoneconflict":
		// one numeric offset in two spellings ("+05:00" and "+04:60"), the goroutines of a burst
		// alternating between them (the burst's seeds are base*64+g): whoever creates the cached
		// zone first, each call must report the spelling of its own file
		base, g := seed/64, seed%64
		h := 1 + int(base%13)
		sp := fmt.Sprintf("+%02d:00", h)
		if g%2 == 1 {
			sp = fmt.Sprintf("+%02d:60", h-1)
		}
		if base%5 == 0 {
			sp = map[bool]string{false: "+00:00", true: "-00:00"}[g%2 == 1]
		}
		data := c05ZoneFile(core.NewRng(base, 0x20e), [3]string{sp, sp, sp})
		return func() string { return exifObs(imagemeta.DecodeTiff(mon.NewRS(data))) }
	case "previewcr3":
		mk := func() []byte {
			t, _, _ := gen.SynthPayload(r, r.Bool(), 1)
			return t
		}
		// preview sizes differ from seed to seed: a process-wide high-water mark would be written
		cr := gen.BuildCR3(r, gen.CR3Parts{CMT1: mk(), CMT2: mk(), Preview: append([]byte{0xFF, 0xD8}, r.Bytes(1000+int(seed%16)*3000)...), PrvwW: 1620, PrvwH: 1080, NoMdat: r.Bool()}, 0, false)
		return func() string {
			b, err := imagemeta.PreviewCR3(mon.NewRS(cr.Bytes))
			return fmt.Sprintf("%d:%016x/%v", len(b), core.HashStr(string(b)), err)
		}
	case "parsexmp":
		x := gen.GenXMPRec(r, 60, 200).Serialise(r, gen.RandXMPStyle(r, false), 0)
		return func() string {
			v, err := xmp.ParseXmp(bytes.NewReader(x))
			return obs.Err(err) + obs.XMP(v).String()
		}
	default: // tagname
		ids := make([]int, 40)
		for i := range ids {
			ids[i] = r.Intn(65536)
		}
		return func() string {
			var sb strings.Builder
			for _, id := range ids {
				sb.WriteString(tag.ID(id).String())
				sb.WriteString(ifds.IfdType(id % 24).TagName(tag.ID(id)))
				sb.WriteString(ifds.IfdType(id % 24).String())
				sb.WriteString(tag.Type(id % 16).String())
			}
			return fmt.Sprintf("%016x", core.HashStr(sb.String()))
		}
	}
}

// RunProbe is the body of the probe process.
func RunProbe(spec string) int {
	if rest, ok := strings.CutPrefix(spec, "burst:"); ok {
		return runBurst(rest)
	}
	kind, seedS, _ := strings.Cut(spec, ":")
	seed, _ := strconv.ParseUint(seedS, 10, 64)
	op := probeOp(kind, seed)
	for i := 0; i < 3; i++ {
		fmt.Printf("PROBE %d %s\n", i, strings.ReplaceAll(op(), "\n", "\\n"))
	}
	return 0
}

// firstCallProbe runs one probe in a fresh process and compares.
func firstCallProbe(c *core.Ctx, kind string, seed uint64) {
	self, err := os.Executable()
	if err != nil {
		c.Rec.Count("probe_unavailable", 1)
		return
	}
	cmd := exec.Command(self)
	cmd.Env = append(os.Environ(), fmt.Sprintf("VERIF_PROBE=%s:%d", kind, seed))
	var outb, errb bytes.Buffer
	cmd.Stdout, cmd.Stderr = &outb, &errb
	done := make(chan error, 1)
	if err := cmd.Start(); err != nil {
		c.Rec.Count("probe_unavailable", 1)
		return
	}
	go func() { done <- cmd.Wait() }()
	select {
	case err = <-done:
	case <-time.After(120 * time.Second):
		_ = cmd.Process.Kill()
		c.Rec.Count("probe_timeout(inconclusive)", 1)
		return
	}
	desc := fmt.Sprintf("probe %s seed=%d", kind, seed)
	if err != nil {
		c.Rec.Violation("firstcall:crash:"+kind, fmt.Sprintf("a fresh process whose first library call is %s died: %v: %s", desc, err, firstLineOf(errb.String())), map[string]any{"probe": kind, "seed": seed, "stderr": clipStr(errb.String(), 2000)})
		return
	}
	var got []string
	for _, ln := range strings.Split(outb.String(), "\n") {
		if strings.HasPrefix(ln, "PROBE ") {
			parts := strings.SplitN(ln, " ", 3)
			if len(parts) == 3 {
				got = append(got, parts[2])
			}
		}
	}
	c.Rec.Eval(1)
	if len(got) != 3 {
		c.Rec.Count("probe_unreadable(inconclusive)", 1)
		return
	}
	warm := strings.ReplaceAll(probeOp(kind, seed)(), "\n", "\\n")
	c.Rec.Count("first_call_probes", 1)
	c.Rec.Sig("firstcall|" + kind)
	switch {
	case got[0] != got[1] || got[1] != got[2]:
		c.Rec.Violation("firstcall:"+kind, fmt.Sprintf("in a fresh process the first %s gives a different result than the same call repeated (%s): %s", kind, desc, firstDiff(got[0], got[1])),
			map[string]any{"probe": kind, "seed": seed, "first": clipStr(got[0], 800), "second": clipStr(got[1], 800), "third": clipStr(got[2], 800)})
	case got[0] != warm:
		c.Rec.Violation("firstcall:"+kind, fmt.Sprintf("the first %s of a fresh process differs from the same call in a process with a history (%s): %s", kind, desc, firstDiff(got[0], warm)),
			map[string]any{"probe": kind, "seed": seed, "fresh": clipStr(got[0], 800), "warm": clipStr(warm, 800)})
	}
}

// Cold-start bursts (C05): in a process of its own, n goroutines are released together and each
// makes the same kind of call - on an input of its own - as the very first thing the process asks
// of the library. Whatever the library initialises lazily on first use meets concurrency here in
// every burst, not only when a long-lived worker happens to schedule two first uses together.
// Afterwards every call is repeated sequentially and must give what it gave in the burst. Under
// the race build the detector's reports go to the log the driver collects.
func runBurst(spec string) int {
	kind, seedS, _ := strings.Cut(spec, ":")
	seed, _ := strconv.ParseUint(seedS, 10, 64)
	const n = 8
	ops := make([]func() string, n)
	for g := range ops {
		ops[g] = probeOp(kind, seed*64+uint64(g))
	}
	got := make([]string, n)
	start := make(chan struct{})
	done := make(chan int, n)
	for g := 0; g < n; g++ {
		go func(g int) {
			<-start
			got[g] = ops[g]()
			done <- g
		}(g)
	}
	close(start)
	for g := 0; g < n; g++ {
		<-done
	}
	rc := 0
	for g := 0; g < n; g++ {
		again := ops[g]()
		if again != got[g] {
			fmt.Printf("BURSTDIFF %d %s\n", g, strings.ReplaceAll(firstDiff(got[g], again), "\n", " "))
			rc = 0
		}
	}
	fmt.Printf("BURSTDONE %d\n", n)
	return rc
}

// coldBurst runs one burst in a fresh process of this binary and reports what differs.
func coldBurst(c *core.Ctx, kind string, seed uint64) {
	self, err := os.Executable()
	if err != nil {
		c.Rec.Count("burst_unavailable", 1)
		return
	}
	cmd := exec.Command(self)
	cmd.Env = append(os.Environ(), fmt.Sprintf("VERIF_PROBE=burst:%s:%d", kind, seed))
	var outb, errb bytes.Buffer
	cmd.Stdout, cmd.Stderr = &outb, &errb
	done := make(chan error, 1)
	if err := cmd.Start(); err != nil {
		c.Rec.Count("burst_unavailable", 1)
		return
	}
	go func() { done <- cmd.Wait() }()
	select {
	case err = <-done:
	case <-time.After(300 * time.Second):
		_ = cmd.Process.Kill()
		c.Rec.Count("burst_timeout(inconclusive)", 1)
		return
	}
	desc := fmt.Sprintf("burst %s seed=%d", kind, seed)
	c.Rec.Eval(1)
	if err != nil {
		c.Rec.Violation("coldstart:crash:"+kind, fmt.Sprintf("a fresh process whose first library calls are 8 concurrent %s calls died (%s): %v: %s", kind, desc, err, firstLineOf(errb.String())), map[string]any{"burst": kind, "seed": seed, "stderr": clipStr(errb.String(), 2000)})
		return
	}
	if !strings.Contains(outb.String(), "BURSTDONE") {
		c.Rec.Count("burst_unreadable(inconclusive)", 1)
		return
	}
	c.Rec.Count("cold_start_bursts", 1)
	c.Rec.Sig("coldstart|" + kind)
	for _, ln := range strings.Split(outb.String(), "\n") {
		if strings.HasPrefix(ln, "BURSTDIFF ") {
			c.Rec.Violation("coldstart:"+kind, fmt.Sprintf("in a fresh process, one of 8 concurrent first %s calls returned something else than the same call repeated afterwards (%s): %s", kind, desc, strings.TrimPrefix(ln, "BURSTDIFF ")),
				map[string]any{"burst": kind, "seed": seed, "line": ln})
			break
		}
	}
}
