package props

import (
	"bytes"
	"fmt"
	"hash/fnv"
	"image"
	"math"
	"os"
	"os/exec"
	"strconv"
	"strings"
	"time"

	"github.com/evanoberholster/imagemeta"
	"github.com/evanoberholster/imagemeta/exif2"
	"github.com/evanoberholster/imagemeta/exif2/ifds"
	"github.com/evanoberholster/imagemeta/exif2/tag"
	"github.com/evanoberholster/imagemeta/imagehash"
	"github.com/evanoberholster/imagemeta/imagehash/transforms"
	"github.com/evanoberholster/imagemeta/imagehash/transforms32"
	"github.com/evanoberholster/imagemeta/imagetype"
	"github.com/evanoberholster/imagemeta/xmp"

	"verif/harness/internal/core"
	"verif/harness/internal/gen"
	"verif/harness/internal/mon"
	"verif/harness/internal/obs"
)

// First-call probes (C04): "whatever was decoded earlier in the same process" includes nothing
// at all. A probe is run in a process of its own (VERIF_PROBE=<kind>:<seed>), where the probed
// operation is the first thing the process asks of the library; it is repeated three times there
// and the three observations are printed. The parent compares them with each other and with its
// own (warm) observation of the same operation.

// ProbeKinds lists the operations probed.
var ProbeKinds = []string{"gray444", "gray420", "grayrgba", "phash", "dct2d", "dct64", "dct256", "dct2d256", "f64dct", "blurhash", "ahash", "decode", "parse", "parsexmp", "tagname", "sniff"}

func digestF32(p []float32) string {
	h := fnv.New64a()
	var b [4]byte
	for _, v := range p {
		u := math.Float32bits(v)
		b[0], b[1], b[2], b[3] = byte(u), byte(u>>8), byte(u>>16), byte(u>>24)
		h.Write(b[:])
	}
	return fmt.Sprintf("%016x", h.Sum64())
}

func digestF64(p []float64) string {
	h := fnv.New64a()
	var b [8]byte
	for _, v := range p {
		u := math.Float64bits(v)
		for i := 0; i < 8; i++ {
			b[i] = byte(u >> (8 * i))
		}
		h.Write(b[:])
	}
	return fmt.Sprintf("%016x", h.Sum64())
}

// probeOp returns the operation of a probe: every call must give the same observation.
func probeOp(kind string, seed uint64) func() string {
	r := core.NewRng(seed, 0x9b0be)
	size := r.Pick(64, 64, 256)
	img := func(k string) image.Image {
		return gen.MakeImage(r, gen.ImgSpec{Kind: k, W: size, H: size, Content: r.PickStr("noise", "photo", "gradient", "pixel")})
	}
	vec := func(n int) []float32 {
		x := make([]float32, n)
		for i := range x {
			x[i] = float32(r.Intn(256)) + float32(r.Float())
		}
		return x
	}
	switch kind {
	case "gray444", "gray420", "grayrgba":
		var im image.Image
		switch kind {
		case "gray444":
			im = img("ycbcr444")
		case "grayrgba":
			im = img("rgba")
		default:
			y := image.NewYCbCr(image.Rect(0, 0, size, size), image.YCbCrSubsampleRatio420)
			copy(y.Y, r.Bytes(len(y.Y)))
			copy(y.Cb, r.Bytes(len(y.Cb)))
			copy(y.Cr, r.Bytes(len(y.Cr)))
			im = y
		}
		return func() string {
			px := make([]float32, size*size)
			transforms32.ImageToGray(im, &px)
			px64 := make([]float64, size*size)
			transforms.Rgb2GrayFast(im, &px64)
			return digestF32(px) + "/" + digestF64(px64)
		}
	case "phash":
		im := img(r.PickStr("ycbcr444", "rgba", "gray", "nrgba"))
		return func() string { return hashObs(im) }
	case "dct2d":
		x := vec(4096)
		return func() string {
			in := append([]float32(nil), x...)
			out := transforms32.DCT2DHash64(in)
			return digestF32(out[:])
		}
	case "dct2d256":
		x := vec(65536)
		return func() string {
			in := append([]float32(nil), x...)
			out := transforms32.DCT2DHash256(&in)
			return digestF32(out[:])
		}
	case "dct64", "dct256":
		n := 64
		if kind == "dct256" {
			n = 256
		}
		x := vec(n)
		return func() string {
			in := append([]float32(nil), x...)
			if n == 64 {
				transforms32.ForwardDCT64(in)
			} else {
				transforms32.ForwardDCT256(in)
			}
			return digestF32(in)
		}
	case "f64dct":
		x := make([]float64, 65536)
		for i := range x {
			x[i] = float64(r.Intn(65536))
		}
		return func() string {
			a := append([]float64(nil), x[:4096]...)
			o64 := transforms.DCT2DHash64(&a)
			b := append([]float64(nil), x...)
			o256 := transforms.DCT2DHash256(&b)
			return digestF64(o64[:]) + "/" + digestF64(o256[:])
		}
	case "blurhash":
		im := img("rgba")
		return func() string {
			s, err := imagehash.EncodeBlurHashFast(im)
			return fmt.Sprintf("%s/%v", s, err)
		}
	case "ahash":
		im := img(r.PickStr("rgba", "gray"))
		return func() string {
			h, err := imagehash.NewAHash(im)
			return fmt.Sprintf("%v/%v", h, err)
		}
	case "decode", "parse", "sniff":
		files := gen.SynthFiles(seed%7, 1) // generated here, the same in the probe process and in the worker
		f := files[r.Intn(len(files))]
		return func() string {
			switch kind {
			case "decode":
				return exifObs(imagemeta.Decode(mon.NewRS(f.Data))) + exifObs(imagemeta.DecodeCR3(mon.NewRS(f.Data)))
			case "parse":
				return exifObs(exif2.Parse(mon.NewRS(f.Data)))
			default:
				t1, e1 := imagetype.Scan(mon.NewRS(f.Data))
				t2, e2 := imagetype.Buf(f.Data)
				return fmt.Sprint(t1, e1, t2, e2, t1.String(), t1.Extension(), imagetype.FromString(t1.String()))
			}
		}
	case "parsexmp":
		x := gen.GenXMPRec(r, 60, 200).Serialise(r, gen.RandXMPStyle(r, false), 0)
		return func() string {
			v, err := xmp.ParseXmp(bytes.NewReader(x))
			return obs.Err(err) + obs.XMP(v).String()
		}
	default: // tagname
		ids := make([]int, 40)
		for i := range ids {
			ids[i] = r.Intn(65536)
		}
		return func() string {
			var sb strings.Builder
			for _, id := range ids {
				sb.WriteString(tag.ID(id).String())
				sb.WriteString(ifds.IfdType(id % 24).TagName(tag.ID(id)))
				sb.WriteString(ifds.IfdType(id % 24).String())
				sb.WriteString(tag.Type(id % 16).String())
			}
			return fmt.Sprintf("%016x", core.HashStr(sb.String()))
		}
	}
}

// RunProbe is the body of the probe process.
func RunProbe(spec string) int {
	kind, seedS, _ := strings.Cut(spec, ":")
	seed, _ := strconv.ParseUint(seedS, 10, 64)
	op := probeOp(kind, seed)
	for i := 0; i < 3; i++ {
		fmt.Printf("PROBE %d %s\n", i, strings.ReplaceAll(op(), "\n", "\\n"))
	}
	return 0
}

// firstCallProbe runs one probe in a fresh process and compares.
func firstCallProbe(c *core.Ctx, kind string, seed uint64) {
	self, err := os.Executable()
	if err != nil {
		c.Rec.Count("probe_unavailable", 1)
		return
	}
	cmd := exec.Command(self)
	cmd.Env = append(os.Environ(), fmt.Sprintf("VERIF_PROBE=%s:%d", kind, seed))
	var outb, errb bytes.Buffer
	cmd.Stdout, cmd.Stderr = &outb, &errb
	done := make(chan error, 1)
	if err := cmd.Start(); err != nil {
		c.Rec.Count("probe_unavailable", 1)
		return
	}
	go func() { done <- cmd.Wait() }()
	select {
	case err = <-done:
	case <-time.After(120 * time.Second):
		_ = cmd.Process.Kill()
		c.Rec.Count("probe_timeout(inconclusive)", 1)
		return
	}
	desc := fmt.Sprintf("probe %s seed=%d", kind, seed)
	if err != nil {
		c.Rec.Violation("firstcall:crash:"+kind, fmt.Sprintf("a fresh process whose first library call is %s died: %v: %s", desc, err, firstLineOf(errb.String())), map[string]any{"probe": kind, "seed": seed, "stderr": clipStr(errb.String(), 2000)})
		return
	}
	var got []string
	for _, ln := range strings.Split(outb.String(), "\n") {
		if strings.HasPrefix(ln, "PROBE ") {
			parts := strings.SplitN(ln, " ", 3)
			if len(parts) == 3 {
				got = append(got, parts[2])
			}
		}
	}
	c.Rec.Eval(1)
	if len(got) != 3 {
		c.Rec.Count("probe_unreadable(inconclusive)", 1)
		return
	}
	warm := strings.ReplaceAll(probeOp(kind, seed)(), "\n", "\\n")
	c.Rec.Count("first_call_probes", 1)
	c.Rec.Sig("firstcall|" + kind)
	switch {
	case got[0] != got[1] || got[1] != got[2]:
		c.Rec.Violation("firstcall:"+kind, fmt.Sprintf("in a fresh process the first %s gives a different result than the same call repeated (%s): %s", kind, desc, firstDiff(got[0], got[1])),
			map[string]any{"probe": kind, "seed": seed, "first": clipStr(got[0], 800), "second": clipStr(got[1], 800), "third": clipStr(got[2], 800)})
	case got[0] != warm:
		c.Rec.Violation("firstcall:"+kind, fmt.Sprintf("the first %s of a fresh process differs from the same call in a process with a history (%s): %s", kind, desc, firstDiff(got[0], warm)),
			map[string]any{"probe": kind, "seed": seed, "fresh": clipStr(got[0], 800), "warm": clipStr(warm, 800)})
	}
}
