package props

import (
	"bytes"
	"errors"
	"fmt"
	"io"
	"os"
	"sync"
	"syscall"

	"github.com/evanoberholster/imagemeta"
	"github.com/evanoberholster/imagemeta/exif2"
	"github.com/evanoberholster/imagemeta/isobmff"
	"github.com/evanoberholster/imagemeta/jpeg"
	"github.com/rs/zerolog"

	"verif/harness/internal/core"
	"verif/harness/internal/gen"
	"verif/harness/internal/mon"
)

// the library's default loggers, captured before anything calls SetLogger
var (
	defExif, defJPEG, defBMFF zerolog.Logger
	defOnce                   sync.Once
)

func captureDefaults() {
	defOnce.Do(func() { defExif, defJPEG, defBMFF = exif2.Logger, jpeg.Logger, isobmff.Logger })
}

func restoreDefaults() {
	exif2.Logger, jpeg.Logger, isobmff.Logger = defExif, defJPEG, defBMFF
}

type countWriter struct {
	n     int64
	calls int
	mode  int // 0 buffer, 1 discard, 2 short write, 3 failing
	buf   bytes.Buffer
}

func (w *countWriter) Write(p []byte) (int, error) {
	w.n += int64(len(p))
	w.calls++
	switch w.mode {
	case 0:
		if w.buf.Len() < 1<<20 {
			w.buf.Write(p)
		}
		return len(p), nil
	case 1:
		return io.Discard.Write(p)
	case 2:
		if len(p) > 1 {
			return len(p) / 2, nil
		}
		return len(p), nil
	default:
		return 0, errors.New("verif: log writer failed")
	}
}

func fdSize(fd int) int64 {
	var st syscall.Stat_t
	if err := syscall.Fstat(fd, &st); err != nil {
		return -1
	}
	return st.Size
}

// C15 — logging is neutral; the default configuration is silent.
type C15 struct {
	once sync.Once
	pop  *population
}

func (e *C15) ID() string    { return "C15" }
func (e *C15) Level() string { return "exploration" }
func (e *C15) Rule() string {
	return "each case is one input x (valid, truncated or malformed file, as in C08) run through its natural entry points: first with the library's default loggers (the values the packages hold before any SetLogger call) while the sizes of the worker's file descriptors 1 and 2 (redirected to files by the driver) are sampled before and after the call; then under imagemeta.SetLogger(w, L) for every level L in {trace, debug, info, warn, error, fatal, panic, disabled, no-level} with a writer w drawn from {buffer, io.Discard, short-write, failing}, a third of the time wrapped in a zerolog.ConsoleWriter value (an uncomparable struct type, what the library installs itself), the configuration installed once or twice in a row; pristine library state before every call. Oracle: observation under every configuration equals the default one; no panic; fd 1/2 do not grow during default-configuration calls. Non-trivial: the non-default configuration emitted at least one log event for that input; distinct = (entry, level, writer, outcome class)."
}
func (e *C15) Assumptions() []string {
	return []string{"zerolog reports writer failures on os.Stderr by design; stderr is therefore only required to stay silent under the default configuration",
		"the worker itself writes nothing to fd 1/2 (results travel through files)"}
}
func (e *C15) Plan(tier string, seed uint64) int {
	if tier == "thorough" {
		return 120000
	}
	return 6000
}
func (e *C15) MinNontrivial(tier string) int { return 60 }
func (e *C15) InitWorker(c *core.Ctx)        { captureDefaults() }

var logLevels = []zerolog.Level{zerolog.TraceLevel, zerolog.DebugLevel, zerolog.InfoLevel, zerolog.WarnLevel, zerolog.ErrorLevel, zerolog.FatalLevel, zerolog.PanicLevel, zerolog.Disabled, zerolog.NoLevel}

func (e *C15) Run(c *core.Ctx, idx int) {
	e.once.Do(func() { e.pop = getPop(c.Seed) })
	captureDefaults()
	p := e.pop
	data, desc, fi := relInput(c, p, idx)
	r := c.Rng(idx, 15)
	if idx%9 == 4 {
		// a CR3 whose first directory holds a text value longer than the 4 KiB look-ahead window:
		// the Exif reader then meets a full buffer on a reader that is a box, not a bufio.Reader
		rec := gen.GenExifRec(r, gen.RecOpts{})
		keep := rec.IFD0.Entries[:0]
		for _, en := range rec.IFD0.Entries {
			if en.Tag != 0x010e {
				keep = append(keep, en)
			}
		}
		rec.IFD0.Entries = keep
		rec.IFD0.Add(0x010e, gen.ASCII(gen.XText(r, r.Pick(4090, 4097, 5000, 9000))))
		rec.IFD0.Sort()
		t := gen.BuildTIFF(rec.IFD0, gen.Layout{Big: r.Bool(), FirstOff: 8, MaxPad: r.Pick(0, 3), R: r, MinLen: 32}).Bytes
		cr := gen.BuildCR3(r, gen.CR3Parts{CMT1: t, Preview: append([]byte{0xFF, 0xD8}, r.Bytes(r.Range(100, 3000))...), PrvwW: 160, PrvwH: 120}, 0, false)
		data, desc, fi = cr.Bytes, fmt.Sprintf("cr3 long-text len=%d", len(cr.Bytes)), -2
	}
	// a sixth of the cases read from a source that fails (a non-EOF error, an unexpected EOF, a
	// failing Seek) at a drawn position: error paths log, and must log to the configured sink only
	fault, cut := -1, 0
	if idx%6 == 1 && len(data) > 0 {
		fault, cut = r.Pick(2, 2, 3, 4), r.Intn(len(data))
		desc += fmt.Sprintf(" reader-fault=%d@%d", fault, cut)
	}
	mkRS := func() *mon.RS {
		rs := mon.NewRS(data)
		if fault >= 0 {
			readerKind(rs, fault, cut)
		}
		return rs
	}
	nat := natEntries(p, fi, data)
	for _, ei := range nat {
		ent := p.entries[ei]
		restoreDefaults()
		imagemeta.VerifResetState()
		c.SetPhase("entry=" + ent.Name + " default-logger " + desc)
		_ = os.Stdout.Sync()
		o1, e1 := fdSize(1), fdSize(2)
		var ref string
		pk, _, _ := core.Guard(func() { ref = ent.Run(mkRS()) })
		o2, e2 := fdSize(1), fdSize(2)
		c.Rec.Eval(1)
		if o2 != o1 || e2 != e1 {
			c.Rec.Violation("default-output:"+ent.Name, fmt.Sprintf("%s wrote %d bytes to stdout and %d bytes to stderr under the default logger configuration (%s)", ent.Name, o2-o1, e2-e1, desc),
				map[string]any{"entry": ent.Name, "input": desc, "stdout_bytes": o2 - o1, "stderr_bytes": e2 - e1})
		}
		if pk {
			c.Rec.Count("panics_seen(C01)", 1)
			continue
		}
		for li, lvl := range logLevels {
			w := &countWriter{mode: (li + idx + r.Intn(2)) % 4}
			// the writer is handed over as it is, or wrapped in a value of a struct type with slice
			// and func fields (zerolog.ConsoleWriter, the kind of writer the library installs
			// itself); the configuration is installed once or twice in a row (a caller that
			// re-installs its configuration before every file)
			var lw io.Writer = w
			wrap := (li+idx)%3 == 0
			if wrap {
				lw = zerolog.ConsoleWriter{Out: w, NoColor: true, PartsOrder: []string{"level", "message"}}
			}
			twice := (li+idx/3)%2 == 0
			if pk, key, text := core.Guard(func() {
				imagemeta.SetLogger(lw, lvl)
				if twice {
					imagemeta.SetLogger(lw, lvl)
				}
			}); pk {
				c.Rec.Violation("log:setlogger:"+key, fmt.Sprintf("SetLogger(level=%s, console-writer=%v, installed twice=%v) panicked: %s", lvl.String(), wrap, twice, firstLineOf(text)), map[string]any{"panic": text})
				restoreDefaults()
				continue
			}
			imagemeta.VerifResetState()
			what := fmt.Sprintf("level=%s writer=%d console=%v twice=%v", lvl.String(), w.mode, wrap, twice)
			c.SetPhase("entry=" + ent.Name + " " + what + " " + desc)
			var got string
			pk, key, text := core.Guard(func() { got = ent.Run(mkRS()) })
			restoreDefaults()
			c.Rec.Eval(1)
			if pk {
				c.Rec.Violation("log:"+key, fmt.Sprintf("%s panicked under %s but not under the default configuration (%s): %s", ent.Name, what, desc, firstLineOf(text)),
					map[string]any{"entry": ent.Name, "config": what, "input": desc, "panic": text})
				continue
			}
			if got != ref {
				c.Rec.Violation("log:"+ent.Name, fmt.Sprintf("%s returns a different result under %s than under the default configuration (%s): %s", ent.Name, what, desc, firstDiff(ref, got)),
					map[string]any{"entry": ent.Name, "config": what, "input": desc, "default": clipStr(ref, 1500), "configured": clipStr(got, 1500)})
			}
			c.Rec.Count("log_bytes_emitted", w.n)
			if w.calls > 0 {
				c.Rec.Count("calls_with_log_events", 1)
				c.Rec.Sig(fmt.Sprintf("%s|%s|w%d|%s", ent.Name, lvl.String(), w.mode, outcomeClass(got)))
			}
		}
	}
	restoreDefaults()
	if c.Rec.WantSample() && idx%31 == 0 {
		c.Rec.Sample(map[string]any{"input": desc, "len": len(data), "entries": len(nat), "levels": len(logLevels)})
	}
}
