package props

import (
	"fmt"
	"github.com/evanoberholster/imagemeta/imagetype"
	"sort"
	"strings"

	"github.com/evanoberholster/imagemeta"
	"github.com/evanoberholster/imagemeta/exif2"

	"verif/harness/internal/core"
	"verif/harness/internal/gen"
	"verif/harness/internal/mon"
	"verif/harness/internal/obs"
)

// exifCase is one generated logical record with everything needed to embed it.
type exifCase struct {
	rec    *gen.ExifRec
	layout gen.Layout // without Big / R
	lseed  uint64     // layout stream seed (shared by the II and MM builds)
	desc   string
	class  string // layout class for signatures

	assembled bool
	root      *gen.Dir
}

// drawExifCase draws the record, the foreign tags and the layout parameters. The result is
// byte-order independent; build() serialises it for one byte order.
func drawExifCase(r *core.Rng, slotty bool, boundary bool) *exifCase {
	opts := gen.RecOpts{Slotty: slotty, LongStrings: r.Chance(1, 3)}
	bigNote := r.Chance(1, 50)
	if bigNote {
		// a Nikon file with a large maker note (82 out-of-line entries of its own) and little else:
		// the note passes through the reader's pending table and must leave it empty for the GPS
		// directory behind it
		opts = gen.RecOpts{Density: 12, NikonBigNote: true}
	}
	rec := gen.GenExifRec(r, opts)
	class := "plain"
	nf0, nfx, nfg := r.Intn(8), r.Intn(8), r.Intn(4)
	if bigNote {
		nf0, nfx, nfg, boundary = 0, 0, 0, false
	}
	big := r.Chance(1, 5)
	invalid := r.Chance(1, 2)
	if boundary {
		switch r.Intn(4) {
		case 0: // exactly 128 entries in one directory
			d := []*gen.Dir{rec.IFD0, rec.Exif, rec.GPS}[r.Intn(3)]
			nf0, nfx, nfg = 0, 0, 0
			extra := 0
			if d == rec.IFD0 {
				extra = 2 // the two sub-directory pointers added by Assemble
			}
			need := 128 - len(d.Entries) - extra
			gen.AddForeignEmbedded(r, d, need)
			class = "128-entries"
		case 1: // many pending references
			class = "many-pending"
			nf0, nfx = r.Range(20, 60), r.Range(20, 60)
		case 2: // big foreign values between known ones
			class = "big-foreign"
			big = true
			nf0, nfx = r.Range(3, 12), r.Range(3, 12)
		default:
			class = "no-foreign"
			nf0, nfx, nfg = 0, 0, 0
		}
	}
	gen.AddForeign(r, rec.IFD0, nf0, big, invalid)
	gen.AddForeign(r, rec.Exif, nfx, big, invalid)
	gen.AddForeign(r, rec.GPS, nfg, false, invalid)
	if class == "many-pending" {
		rec.HasExif, rec.HasGPS = true, true
	}
	ec := &exifCase{rec: rec, class: class, lseed: r.U64()}
	ec.layout = gen.Layout{FirstOff: 8, MaxPad: r.Pick(0, 0, 1, 2, 7, 64), Order: r.Intn(3), RandomPad: r.Chance(1, 3)}
	if r.Chance(1, 6) {
		ec.layout.FirstOff = 8 + r.Range(1, 200)
	}
	if r.Chance(1, 40) {
		// the first directory 64 KiB or more behind the header (writers that put image data first)
		ec.layout.FirstOff = r.Pick(65535, 65536, 70000, 300000)
	}
	ec.layout.SlotFill = r.Chance(1, 4)
	ec.desc = fmt.Sprintf("fields=%d foreign=%d/%d/%d class=%s order=%d pad=%d first=%d %s", len(rec.Exp.Names), nf0, nfx, nfg, class, ec.layout.Order, ec.layout.MaxPad, ec.layout.FirstOff, rec.Note)
	return ec
}

type builtCase struct {
	tiff       gen.Built // linked TIFF (IFD0 -> Exif, GPS)
	parts      [3][]byte // separate TIFF blobs per directory (CR3)
	partsBuilt [3]gen.Built
}

// build serialises for one byte order. withIFD1 chains a thumbnail directory after IFD0.
func (ec *exifCase) build(big bool, linked bool) gen.Built {
	L := ec.layout
	L.Big = big
	L.R = core.NewRng(ec.lseed, 1)
	var root *gen.Dir
	L.NoteTags = ec.rec.NoteTags
	L.MinLen = 32 // streams shorter than the 32 bytes the header search peeks are outside its contract (C12)
	if linked {
		root = ec.linkedRoot()
	} else {
		root = ec.rec.IFD0
	}
	return gen.BuildTIFF(root, L)
}

func (ec *exifCase) linkedRoot() *gen.Dir {
	// Assemble mutates; do it once
	if !ec.assembled {
		ec.rec.Exif.Sort()
		ec.rec.GPS.Sort()
		root := &gen.Dir{Kind: gen.KIFD0, Entries: append([]gen.Entry(nil), ec.rec.IFD0.Entries...)}
		if ec.rec.HasExif {
			root.AddChild(0x8769, ec.rec.Exif)
		}
		if ec.rec.HasGPS {
			root.AddChild(0x8825, ec.rec.GPS)
		}
		root.Sort()
		ec.rec.IFD0.Sort()
		if ec.lseed%4 == 0 {
			// a second directory chained to the first (IFD1, the thumbnail): its own width, height,
			// orientation, strips and texts describe the thumbnail, not the image
			tr := core.NewRng(ec.lseed, 77)
			th := &gen.Dir{Kind: gen.KOther}
			th.Add(0x0100, gen.Short(uint16(tr.Pick(160, 120, 1))))
			th.Add(0x0101, gen.Short(uint16(tr.Pick(120, 90, 2))))
			th.Add(0x0103, gen.Short(6))
			th.Add(0x0112, gen.Short(uint16(tr.Range(1, 8))))
			if tr.Bool() {
				th.Add(0x0111, gen.Long(uint32(tr.Range(200, 9000))))
				th.Add(0x0117, gen.Long(uint32(tr.Range(1, 9000))))
			}
			if tr.Bool() {
				th.Add(0x010f, gen.ASCII("thumbnail maker"))
				th.Add(0x0110, gen.ASCII("thumbnail model"))
				th.Add(0x0131, gen.ASCII("thumbnail software"))
			}
			th.Add(0x0201, gen.Long(uint32(tr.Range(200, 9000))))
			th.Add(0x0202, gen.Long(uint32(tr.Range(1, 9000))))
			th.Sort()
			root.Next = th
		}
		ec.root = root
		ec.assembled = true
	}
	return ec.root
}

func (ec *exifCase) buildPart(big bool, which int) gen.Built {
	ec.linkedRoot()
	L := ec.layout
	L.Big = big
	L.R = core.NewRng(ec.lseed, uint64(10+which))
	L.NoteTags = ec.rec.NoteTags
	d := []*gen.Dir{ec.rec.IFD0, ec.rec.Exif, ec.rec.GPS}[which]
	return gen.BuildTIFF(d, L)
}

// within reports whether the layout is inside the documented limits.
func withinLimits(b gen.Built) bool { return b.MaxEntries <= 128 && b.MaxPending <= 84 }

type decodeFn struct {
	name string
	run  func(b []byte) (exif2.Exif, error)
}

func rsOf(b []byte) *mon.RS { return mon.NewRS(b) }

var (
	dDecode     = decodeFn{"Decode", func(b []byte) (exif2.Exif, error) { return imagemeta.Decode(rsOf(b)) }}
	dDecodeTiff = decodeFn{"DecodeTiff", func(b []byte) (exif2.Exif, error) { return imagemeta.DecodeTiff(rsOf(b)) }}
	dDecodeHeif = decodeFn{"DecodeHeif", func(b []byte) (exif2.Exif, error) { return imagemeta.DecodeHeif(rsOf(b)) }}
	dDecodeJPEG = decodeFn{"DecodeJPEG", func(b []byte) (exif2.Exif, error) { return imagemeta.DecodeJPEG(rsOf(b)) }}
	dDecodePng  = decodeFn{"DecodePng", func(b []byte) (exif2.Exif, error) { return imagemeta.DecodePng(rsOf(b)) }}
	dDecodeCR2  = decodeFn{"DecodeCR2", func(b []byte) (exif2.Exif, error) { return imagemeta.DecodeCR2(rsOf(b)) }}
	dDecodeCR3  = decodeFn{"DecodeCR3", func(b []byte) (exif2.Exif, error) { return imagemeta.DecodeCR3(rsOf(b)) }}
	dParse      = decodeFn{"exif2.Parse", func(b []byte) (exif2.Exif, error) { return exif2.Parse(rsOf(b)) }}
)

// pristineDecode resets every pool/cache, then decodes; panics are reported as such.
func pristineDecode(c *core.Ctx, d decodeFn, b []byte) (m obs.Map, errS string, ok bool) {
	imagemeta.VerifResetState()
	var e exif2.Exif
	var err error
	c.SetPhase("entry=" + d.name)
	panicked, key, text := core.Guard(func() { e, err = d.run(b) })
	c.Rec.Eval(1)
	if panicked {
		c.Rec.Violation(key, d.name+" panicked on a well-formed file: "+firstLineOf(text), map[string]any{"entry": d.name, "panic": text})
		return nil, "", false
	}
	return obs.Exif(e), obs.Err(err), true
}

func fieldSig(names []string) string {
	s := append([]string(nil), names...)
	sort.Strings(s)
	h := core.HashStr(strings.Join(s, ","))
	return fmt.Sprintf("%x", h&0xffffff)
}

// containers embeds one payload build in every container. Returned map: container -> bytes.
type embedded struct {
	name    string
	bytes   []byte
	it      int // expected ImageType value
	decs    []decodeFn
	parseOK bool
}

func embedAll(r *core.Rng, ec *exifCase, big bool) []embedded {
	t := ec.build(big, true)
	var out []embedded
	out = append(out, embedded{name: "TIFF", bytes: t.Bytes, it: 8, decs: []decodeFn{dDecode, dDecodeTiff, dParse}})
	// JPEG
	if len(t.Bytes) <= 65000 {
		var segs []gen.Seg
		for k := r.Range(0, 4); k > 0; k-- {
			segs = append(segs, gen.RandOtherSeg(r, 2000))
		}
		if r.Chance(1, 3) {
			segs = append(segs, gen.XMPSeg([]byte("<x:xmpmeta xmlns:x='adobe:ns:meta/'><rdf:RDF/></x:xmpmeta>")))
		}
		segs = append(segs, gen.ExifSeg(t.Bytes))
		for k := r.Range(0, 3); k > 0; k-- {
			segs = append(segs, gen.RandOtherSeg(r, 500))
		}
		if r.Chance(1, 8) {
			segs[r.Intn(len(segs))].Fill = r.Pick(1, 2, 3)
		}
		j := gen.BuildJPEG(r, segs, r.Range(64, 400))
		out = append(out, embedded{name: "JPEG", bytes: j.Bytes, it: 1, decs: []decodeFn{dDecode, dDecodeJPEG}})
	}
	// PNG
	p := gen.BuildPNG(r, t.Bytes, r.Range(0, 4), r.Range(0, 2))
	out = append(out, embedded{name: "PNG", bytes: p.Bytes, it: 2, decs: []decodeFn{dDecodePng}})
	// HEIF
	h := gen.BuildHEIF(r, t.Bytes, r.Intn(16))
	out = append(out, embedded{name: "HEIF", bytes: h, it: 6, decs: []decodeFn{dDecode, dDecodeHeif, dDecodeTiff}})
	// CR3: one TIFF blob per directory
	parts := gen.CR3Parts{CMT1: ec.buildPart(big, 0).Bytes}
	if ec.rec.HasExif {
		parts.CMT2 = ec.buildPart(big, 1).Bytes
	}
	if ec.rec.HasGPS {
		parts.CMT4 = ec.buildPart(big, 2).Bytes
	}
	if r.Bool() {
		parts.CMT3 = gen.BuildTIFF(&gen.Dir{Kind: gen.KOther}, gen.Layout{Big: big, FirstOff: 8, R: r}).Bytes
	}
	if r.Bool() {
		parts.XMP = []byte("<x:xmpmeta xmlns:x='adobe:ns:meta/'><rdf:RDF/></x:xmpmeta>")
	}
	if r.Chance(1, 5) {
		parts.Align = 1 + r.Intn(41)
	}
	parts.OddSiblings = r.Chance(1, 3)
	cr3 := gen.BuildCR3(r, parts, r.Pick(0, 1, 2), r.Chance(1, 4))
	out = append(out, embedded{name: "CR3", bytes: cr3.Bytes, it: 15, decs: []decodeFn{dDecode, dDecodeCR3}})
	// CR2 (last, so that the little- and big-endian lists stay aligned): the same payload (little-endian only, as the format is) with the first directory at 16
	// or later and Canon's "CR\x02\x00" + raw-directory offset at bytes 8..15 - the more specific
	// signature, which the payload's own tags (a DNGVersion tag, a maker note) must not override
	if !big {
		L := ec.layout
		L.Big = false
		L.R = core.NewRng(ec.lseed, 1)
		L.NoteTags = ec.rec.NoteTags
		L.MinLen = 32
		if L.FirstOff < 16 {
			L.FirstOff = 16
		}
		ct := gen.BuildTIFF(ec.linkedRoot(), L)
		if withinLimits(ct) {
			cb := append([]byte(nil), ct.Bytes...)
			copy(cb[8:], "CR\x02\x00")
			copy(cb[12:], core.NewRng(ec.lseed, 99).Bytes(4))
			out = append(out, embedded{name: "CR2", bytes: cb, it: int(imagetype.ImageCR2), decs: []decodeFn{dDecode, dDecodeCR2}})
		}
	}
	return out
}
