package props

import (
	"bufio"
	"bytes"
	"fmt"
	"image"
	"io"
	"math"
	"runtime"
	"runtime/debug"
	"sync"

	"github.com/evanoberholster/imagemeta"
	"github.com/evanoberholster/imagemeta/exif2"
	"github.com/evanoberholster/imagemeta/exif2/ifds"
	"github.com/evanoberholster/imagemeta/exif2/tag"
	"github.com/evanoberholster/imagemeta/imagehash"
	"github.com/evanoberholster/imagemeta/imagetype"
	"github.com/evanoberholster/imagemeta/isobmff"
	"github.com/evanoberholster/imagemeta/jpeg"
	"github.com/evanoberholster/imagemeta/meta/utils"
	"github.com/evanoberholster/imagemeta/tiff"
	"github.com/evanoberholster/imagemeta/xmp"

	"verif/harness/internal/core"
	"verif/harness/internal/gen"
	"verif/harness/internal/mon"
	"verif/harness/internal/obs"
)

// hashObs runs the four perceptual hash functions and the other hashing entry points.
func hashObs(img image.Image) string {
	var s string
	h1, e1 := imagehash.NewPHash64(img)
	h2, e2 := imagehash.NewPHash64Alt(img)
	h3, e3 := imagehash.NewPHash256(img)
	h4, e4 := imagehash.NewPHash256Alt(img)
	s = fmt.Sprintf("p64=%x/%v p64alt=%x/%v p256=%x/%v p256alt=%x/%v", uint64(h1), e1 != nil, uint64(h2), e2 != nil, h3, e3 != nil, h4, e4 != nil)
	return s
}

func resetAll() {
	imagemeta.VerifResetState()
	imagehash.VerifResetPools()
}

// dirtyingFile builds a file that leaves the pooled buffers as dirty as a legal decode can:
// many pending tags with large offsets, 0xFF / digit / zone-like scratch contents.
func dirtyingFile(r *core.Rng) []byte {
	rec := gen.GenExifRec(r, gen.RecOpts{Density: 95, LongStrings: true})
	// unusual but parseable zone strings that land in the zone cache
	zs := []string{"-00:00", "+04:60", "+00:00", "-05:00", "+05:00", "+13:45", "+99:99"}
	rec.Exif.Add(0x9010, gen.ASCII(zs[r.Intn(len(zs))]))
	gen.AddForeign(r, rec.IFD0, r.Range(10, 50), true, false)
	gen.AddForeign(r, rec.Exif, r.Range(10, 50), true, false)
	fill := byte(r.Pick(0xFF, '7', ':', 0x00, 'S', 'W', 1))
	for k := 0; k < 6; k++ {
		rec.IFD0.Add(uint16(0x4000+k), gen.Undefined(repeatByte(fill, r.Range(200, 1000))))
	}
	root := rec.Assemble(true)
	// (duplicate zone tag ids are fine for a dirtying file; it only has to decode somehow)
	bt := gen.BuildTIFF(root, gen.Layout{Big: r.Bool(), FirstOff: 8, MaxPad: r.Pick(0, 3), Order: r.Intn(3), R: r, MinLen: 32})
	if r.Chance(1, 3) { // truncated: leaves pending tags unconsumed
		return bt.Bytes[:len(bt.Bytes)*r.Range(30, 90)/100]
	}
	return bt.Bytes
}

func repeatByte(b byte, n int) []byte {
	out := make([]byte, n)
	for i := range out {
		out[i] = b
	}
	return out
}

func staleTags(r *core.Rng) []exif2.Tag {
	n := r.Range(1, 8)
	out := make([]exif2.Tag, n)
	ids := []uint16{0x010f, 0x0110, 0x0132, 0x8769, 0x8825, 0x829a, 0x9003, 0x9010, 0x9290, 0xa432, 0x0002, 0x0007, 0x001d, 0x927c, 0x014a, 0x013b}
	types := []tag.Type{tag.TypeASCII, tag.TypeShort, tag.TypeLong, tag.TypeRational, tag.TypeUndefined, tag.TypeIfd, tag.TypeByte, tag.TypeSignedRational}
	for i := range out {
		off := uint32(r.Pick(0, 1, 8, 26, 100, 300, 1000, 5000, 70000, 0x7fffffff))
		if r.Bool() {
			off = uint32(r.Intn(3000))
		}
		out[i] = exif2.Tag{ValueOffset: off, UnitCount: uint32(r.Pick(0, 1, 2, 3, 4, 7, 20, 64, 1000)), ID: tag.ID(ids[r.Intn(len(ids))]),
			Type: types[r.Intn(len(types))], Ifd: ifds.IfdType(r.Pick(1, 1, 3, 4, 12)), IfdIndex: int8(r.Intn(2)), ByteOrder: utils.ByteOrder(r.Pick(1, 2))}
	}
	return out
}

func poison(r *core.Rng) string {
	pats := [][]byte{{0xFF}, []byte("0123456789"), []byte("2020:01:01 10:00:00\x00"), []byte("+05:30\x00"), {0x00, 0x01}, []byte("Canon\x00"), []byte("S\x00W\x00"), r.Bytes(64)}
	pi := r.Intn(len(pats))
	exif2.VerifPoisonBuffers(pats[pi], staleTags(r))
	fill := byte(r.Pick(0xFF, 0x00, 'I', 'M', '<', 0xE1))
	imagemeta.VerifPoisonReaders(fill)
	kind := r.Intn(4)
	switch kind {
	case 0:
		imagehash.VerifPoisonPools(func(i int) float64 { return math.NaN() }, func(i int) float32 { return float32(math.NaN()) })
	case 1:
		imagehash.VerifPoisonPools(func(i int) float64 { return 1e30 }, func(i int) float32 { return 1e30 })
	case 2:
		imagehash.VerifPoisonPools(func(i int) float64 { return float64((i * 7919) % 256) }, func(i int) float32 { return float32((i * 7919) % 256) })
	default:
		imagehash.VerifPoisonPools(func(i int) float64 { return -float64(i % 13) }, func(i int) float32 { return -float32(i % 13) })
	}
	return fmt.Sprintf("scratch-pattern#%d reader-fill=%#x pixel-poison#%d", pi, fill, kind)
}

// C04 — a result depends only on the bytes of that call.
type C04 struct {
	once sync.Once
	pop  *population
}

func (e *C04) ID() string    { return "C04" }
func (e *C04) Level() string { return "exploration" }
func (e *C04) Rule() string {
	return "each case takes an input x (valid, truncated or malformed file through its natural entry points, or an image of right or wrong size through the four hash functions) and compares the canonical observation of f(x) on pristine state (hooks reset every pool and the zone cache) with f(x) (a) after a real history of 1-8 earlier calls in the same process (valid files, malformed files, purpose-built dirtying files that leave many pending tags, 0xFF/digit/zone-like scratch bytes and unusual zone strings, hash calls on other images, scanner calls that were handed a caller-owned bufio.Reader of 4097..65536 bytes; GOMAXPROCS=1 and GC off so that sync.Pool hands back the same objects) and (b) under 3 poison specs (pooled scratch bytes / stale tags of valid type with arbitrary id, count, offset / bufio buffers pre-filled / pixel pools filled with NaN, 1e30, another image). A divergence found under poison is replayed as a real history before it is reported as such (both are violations; the report says which). First call: every 150th case runs one operation (gray conversion of YCbCr 4:4:4 / 4:2:0 / RGBA images by both converters, the hashes, each DCT entry point, blurhash, decode, parse, XMP, tag names, sniffing) as the very first library call of a fresh process, three times, and compares the three observations with each other and with the same call in the long-lived worker (bit-exact digests of pixel and coefficient buffers). Ownership: after a scanner call on a caller-owned bufio.Reader and later calls on other streams, the caller's reader must still yield exactly the rest of its own stream. Immutability: a returned Exif, XMP and preview are re-observed after later calls. Non-trivial: x reaches the Exif reader, the XMP parser or a hash kernel; distinct = (entry, outcome class, history class)."
}
func (e *C04) Assumptions() []string {
	return []string{"the verif hooks replace the pool variables at quiescent points; poison contents are reachable: any byte pattern can be left in the scratch buffer by a file holding those bytes, any tag of valid type by a directory listing it; len/pos are not poisoned (a dropped reset is caught by the real histories)",
		"pristine = hooks reset; the thorough tier additionally compares the hook reset with a genuinely fresh state at worker start"}
}
func (e *C04) Plan(tier string, seed uint64) int {
	if tier == "thorough" {
		return 150000
	}
	return 6000
}
func (e *C04) MinNontrivial(tier string) int { return 60 }
func (e *C04) InitWorker(c *core.Ctx) {
	runtime.GOMAXPROCS(1)
	debug.SetGCPercent(-1)
}

func hashImage(r *core.Rng) (image.Image, string) {
	sizes := [][2]int{{64, 64}, {64, 64}, {256, 256}, {32, 32}, {64, 10}, {128, 128}, {10, 64}, {65, 65}, {0, 0}, {256, 255}, {8, 8}, {128, 32}, {32, 128}, {512, 128}, {16, 256}, {4096, 1}, {64, 32}, {256, 64}}
	sz := sizes[r.Intn(len(sizes))]
	sp := gen.ImgSpec{Kind: gen.ImgKinds[r.Intn(len(gen.ImgKinds))], W: sz[0], H: sz[1], Content: gen.ImgContents[r.Intn(len(gen.ImgContents))]}
	return gen.MakeImage(r, sp), fmt.Sprintf("image %s %dx%d", sp, sz[0], sz[1])
}

func (e *C04) Run(c *core.Ctx, idx int) {
	e.once.Do(func() { e.pop = getPop(c.Seed) })
	p := e.pop
	// GC stays off while a case runs (so that sync.Pool hands back the objects of the history) and
	// runs between cases
	defer runtime.GC()
	r := c.Rng(idx, 4)
	if idx%150 == 77 {
		// the empty history: the operation as the first library call of a fresh process
		firstCallProbe(c, ProbeKinds[(idx/150)%len(ProbeKinds)], c.Seed*1000003+uint64(idx))
		return
	}
	// ----- the call under test
	type call struct {
		name string
		run  func() string
	}
	var calls []call
	var desc string
	if idx%5 == 4 {
		img, d := hashImage(r)
		desc = d
		calls = append(calls, call{"imagehash.NewPHash*", func() string { return hashObs(img) }})
	} else {
		data, d, fi := relInput(c, p, idx)
		if idx%25 == 3 {
			// a file that ends inside the 24 bytes the sniffers look at, starting like an ISOBMFF
			// file (a caller that hands over the first box only): whatever the missing bytes would
			// decide must not be decided by what an earlier call left behind
			full := []byte("\x00\x00\x00\x18ftypmif1\x00\x00\x00\x00mif1heic")
			copy(full[8:], r.PickStr("mif1", "msf1", "heic", "avif"))
			n := r.Range(14, 23)
			data = append([]byte(nil), full[:n]...)
			if n >= 4 && r.Bool() {
				data[3] = byte(n) // the box says it is complete
			}
			d, fi = fmt.Sprintf("short ftyp %x", data), -2
		}
		if idx%25 == 13 {
			// a metadata-only JPEG stream (SOI, APP1 Exif, [XMP], EOI, then bytes) and streams with
			// markers in front of SOI: what the scanner makes of them depends on its nesting
			// counter, which must start at zero in every call
			t, _, _ := gen.SynthPayload(r, r.Bool(), 1)
			var s []byte
			if r.Chance(1, 3) {
				s = append(s, 0xFF, 0xE0, 0x00, 0x04, 0x11, 0x22) // a segment in front of SOI
			}
			s = append(s, 0xFF, 0xD8)
			ex := gen.ExifSeg(t)
			s = append(s, 0xFF, ex.Marker, byte((len(ex.Payload)+2)>>8), byte(len(ex.Payload)+2))
			s = append(s, ex.Payload...)
			s = append(s, 0xFF, 0xD9)
			s = append(s, make([]byte, r.Pick(64, 80, 300))...)
			data = s
			d, fi = fmt.Sprintf("jpeg metadata-only stream len=%d", len(data)), -2
		}
		if idx%25 == 8 {
			// a date value that stops short (count 16..20 instead of 20) and is the last thing in the
			// stream: whatever a parser reads behind its end comes from an earlier call
			big := r.Bool()
			tag := uint16(r.Pick(0x0132, 0x0132, 0x9003, 0x9004))
			k := r.Pick(16, 17, 17, 18, 18, 19, 20)
			val := []byte("2020:01:02 10:30:59\x00")[:k]
			var t []byte
			p16 := func(v int) {
				if big {
					t = append(t, byte(v>>8), byte(v))
				} else {
					t = append(t, byte(v), byte(v>>8))
				}
			}
			p32 := func(v int) {
				if big {
					p16(v >> 16)
					p16(v & 0xffff)
				} else {
					p16(v & 0xffff)
					p16(v >> 16)
				}
			}
			if big {
				t = append(t, "MM\x00*"...)
			} else {
				t = append(t, "II*\x00"...)
			}
			p32(8)
			dir := func(id uint16, typ, cnt, v int) { p16(int(id)); p16(typ); p32(cnt); p32(v) }
			if tag == 0x0132 {
				p16(1)
				dir(tag, 2, k, 26)
				p32(0)
			} else {
				p16(1)
				dir(0x8769, 4, 1, 26)
				p32(0)
				p16(1)
				dir(tag, 2, k, 44)
				p32(0)
			}
			data = append(t, val...)
			d, fi = fmt.Sprintf("short date tag=%04x count=%d big=%v len=%d", tag, k, big, len(data)), -2
		}
		desc = d
		for _, ei := range natEntries(p, fi, data) {
			ent := p.entries[ei]
			calls = append(calls, call{ent.Name, func() string { return ent.Run(mon.NewRS(data)) }})
		}
	}
	// ----- history generator
	history := func(hr *core.Rng) string {
		n := hr.Range(1, 8)
		hd := ""
		for k := 0; k < n; k++ {
			switch hr.Intn(7) {
			case 0, 1:
				b := dirtyingFile(hr)
				_, _, _ = core.Guard(func() { _, _ = imagemeta.Decode(mon.NewRS(b)); _, _ = exif2.Parse(mon.NewRS(b)) })
				hd += "dirty;"
			case 2:
				f := p.files[hr.Intn(len(p.files))]
				ent := p.entries[p.natural[hr.Intn(len(p.files))%len(p.natural)][0]]
				_, _, _ = core.Guard(func() { _ = ent.Run(mon.NewRS(f.Data)) })
				hd += "file;"
			case 3:
				f := p.files[hr.Intn(len(p.files))]
				d, _ := gen.Mutate(hr, f.Data, f.Fields, 2)
				for _, ei := range p.natural[0] {
					ent := p.entries[ei]
					_, _, _ = core.Guard(func() { _ = ent.Run(mon.NewRS(d)) })
				}
				hd += "malformed;"
			case 4:
				img, _ := hashImage(hr)
				_, _, _ = core.Guard(func() { _ = hashObs(img) })
				hd += "hash;"
			case 5:
				// calls that were handed the caller's own buffered reader (of a size unlike the pooled ones)
				f := p.files[hr.Intn(len(p.files))]
				br := bufio.NewReaderSize(mon.NewRS(f.Data), hr.Pick(4097, 8192, 65536))
				_, _, _ = core.Guard(func() {
					switch hr.Intn(4) {
					case 0:
						_ = jpeg.ScanJPEG(br, nil, nil)
					case 1:
						_, _ = tiff.ScanTiffHeader(br, imagetype.ImageUnknown)
					case 2:
						_, _ = xmp.ParseXmp(br)
					default:
						rd := isobmff.NewReader(br)
						_ = rd.ReadFTYP()
						rd.Close()
					}
				})
				hd += "ownreader;"
			default:
				x := gen.GenXMPRec(hr, 60, 200).Serialise(hr, gen.RandXMPStyle(hr, false), 0)
				_, _, _ = core.Guard(func() { _, _ = xmp.ParseXmp(mon.NewRS(x)) })
				hd += "xmp;"
			}
		}
		return hd
	}
	for _, cl := range calls {
		c.SetPhase("entry=" + cl.name + " " + desc)
		resetAll()
		var ref string
		if pk, _, _ := core.Guard(func() { ref = cl.run() }); pk {
			c.Rec.Count("panics_seen(C01)", 1)
			continue
		}
		c.Rec.Eval(1)
		nontrivial := len(ref) > 200 || cl.name == "imagehash.NewPHash*"
		// (a) real history
		resetAll()
		hs := r.U64()
		hd := history(core.NewRng(hs))
		var got string
		pk, key, text := core.Guard(func() { got = cl.run() })
		c.Rec.Eval(1)
		if pk {
			c.Rec.Violation("history:"+key, fmt.Sprintf("%s panicked after history [%s] but not on pristine state (%s): %s", cl.name, hd, desc, firstLineOf(text)), map[string]any{"entry": cl.name, "input": desc, "history": hd, "panic": text})
		} else if got != ref {
			c.Rec.Violation("history:"+cl.name, fmt.Sprintf("%s returns a different result after history [%s] than on pristine state (%s): %s", cl.name, hd, desc, firstDiff(ref, got)),
				map[string]any{"entry": cl.name, "input": desc, "history": hd, "pristine": clipStr(ref, 1500), "after_history": clipStr(got, 1500)})
		}
		if nontrivial {
			c.Rec.Sig(cl.name + "|" + outcomeClass(ref) + "|real-history")
		}
		// (b) poisoned pools
		for k := 0; k < 3; k++ {
			pr := core.NewRng(r.U64())
			ps := pr.U64()
			resetAll()
			pd := poison(core.NewRng(ps))
			pk, key, text := core.Guard(func() { got = cl.run() })
			c.Rec.Eval(1)
			if !pk && got == ref {
				if nontrivial {
					c.Rec.Sig(cl.name + "|" + outcomeClass(ref) + "|poison")
				}
				continue
			}
			how := "poisoned pools (" + pd + ")"
			if pk {
				c.Rec.Violation("poison:"+key, fmt.Sprintf("%s panicked under %s but not on pristine state (%s): %s", cl.name, how, desc, firstLineOf(text)), map[string]any{"entry": cl.name, "input": desc, "poison": pd, "panic": text})
			} else {
				c.Rec.Violation("poison:"+cl.name, fmt.Sprintf("%s returns a different result under %s than on pristine state (%s): %s", cl.name, how, desc, firstDiff(ref, got)),
					map[string]any{"entry": cl.name, "input": desc, "poison": pd, "pristine": clipStr(ref, 1500), "poisoned": clipStr(got, 1500)})
			}
		}
	}
	// ----- a caller's own buffered reader stays the caller's: after a call that was handed a
	// *bufio.Reader, later calls on other streams (which take readers from the library's pools)
	// must not touch it; what it still holds is the rest of its own stream
	if idx%5 != 4 && idx%3 == 0 {
		data, _, _ := relInput(c, p, idx)
		other := p.files[r.Intn(len(p.files))].Data
		size := r.Pick(4096, 4097, 8192, 65536)
		type own struct {
			name string
			run  func(br *bufio.Reader)
		}
		owners := []own{
			{"jpeg.ScanJPEG", func(br *bufio.Reader) { _ = jpeg.ScanJPEG(br, nil, nil) }},
			{"tiff.ScanTiffHeader", func(br *bufio.Reader) { _, _ = tiff.ScanTiffHeader(br, imagetype.ImageUnknown) }},
			{"xmp.ParseXmp", func(br *bufio.Reader) { _, _ = xmp.ParseXmp(br) }},
			{"imagetype.ScanBuf", func(br *bufio.Reader) { _, _ = imagetype.ScanBuf(br) }},
			{"isobmff.Reader", func(br *bufio.Reader) {
				rd := isobmff.NewReader(br)
				if rd.ReadFTYP() == nil {
					_ = rd.ReadMetadata()
				}
				rd.Close()
			}},
		}
		ow := owners[r.Intn(len(owners))]
		resetAll()
		rsA := mon.NewRS(data)
		brA := bufio.NewReaderSize(rsA, size)
		c.SetPhase("ownership " + ow.name + " " + desc)
		if pk, _, _ := core.Guard(func() { ow.run(brA) }); !pk {
			posA := int(rsA.Pos) - brA.Buffered()
			// later calls on plain readers of another stream, through every scanner that pools
			// readers; each call is made once more from inside a Read of the first (re-entrancy
			// through the caller's reader is legal), so that two readers are taken from each pool
			// before one is given back: a pool hands out its most recent addition second
			var later func(depth int)
			later = func(depth int) {
				mk := func() *mon.RS {
					rs := mon.NewRS(other)
					if depth < 1 {
						done := false
						rs.Yield = func() {
							if !done {
								done = true
								later(depth + 1)
							}
						}
					}
					return rs
				}
				_ = jpeg.ScanJPEG(mk(), nil, nil)
				_, _ = tiff.ScanTiffHeader(mk(), imagetype.ImageUnknown)
				_, _ = exif2.Parse(mk())
				_, _ = xmp.ParseXmp(mk())
				_, _ = imagetype.Scan(mk())
				_, _ = imagemeta.Decode(mk())
				rd := isobmff.NewReader(mk())
				_ = rd.ReadFTYP()
				rd.Close()
			}
			_, _, _ = core.Guard(func() { later(0) })
			rest, _ := io.ReadAll(brA)
			c.Rec.Eval(1)
			c.Rec.Count("ownership_checked:"+ow.name, 1)
			if posA < 0 || posA > len(data) || !bytes.Equal(rest, data[posA:]) {
				c.Rec.Violation("ownership:"+ow.name, fmt.Sprintf("after %s on a caller-owned bufio.Reader (size %d) and later calls on other streams, the caller's reader yields %d bytes that are not the %d remaining bytes of its own stream (%s)", ow.name, size, len(rest), len(data)-posA, desc),
					map[string]any{"entry": ow.name, "input": desc, "reader_size": size, "position_after_call": posA})
			}
		}
	}
	// ----- immutability of returned results
	if idx%5 != 4 {
		data, _, _ := relInput(c, p, idx)
		var other []byte
		if idx%10 == 3 {
			// the kept result holds zone objects; a later file spells the same offsets differently
			// ("+05:00" / "+04:60", "+00:00" / "-00:00"): what was returned must keep its own names
			h := 1 + r.Intn(13)
			a, b := fmt.Sprintf("+%02d:00", h), fmt.Sprintf("+%02d:60", h-1)
			if r.Chance(1, 4) {
				a, b = "+00:00", "-00:00"
			}
			if r.Bool() {
				a, b = b, a
			}
			data = c05ZoneFile(core.NewRng(r.U64()), [3]string{a, a, a})
			other = c05ZoneFile(core.NewRng(r.U64()), [3]string{b, b, b})
			desc = fmt.Sprintf("zone file %s, then zone file %s", a, b)
		}
		resetAll()
		var ex exif2.Exif
		var xm xmp.XMP
		var pv []byte
		_, _, _ = core.Guard(func() { ex, _ = imagemeta.Decode(mon.NewRS(data)) })
		_, _, _ = core.Guard(func() { xm, _ = xmp.ParseXmp(mon.NewRS(data)) })
		_, _, _ = core.Guard(func() { pv, _ = imagemeta.PreviewCR3(mon.NewRS(data)) })
		before := obs.Exif(ex).String() + obs.XMP(xm).String() + obs.Bytes(pv)
		_ = history(core.NewRng(r.U64()))
		if other != nil {
			_, _, _ = core.Guard(func() { _, _ = imagemeta.Decode(mon.NewRS(other)) })
		}
		after := obs.Exif(ex).String() + obs.XMP(xm).String() + obs.Bytes(pv)
		c.Rec.Eval(3)
		if before != after {
			c.Rec.Violation("immutable", fmt.Sprintf("a returned result changed after later calls (%s): %s", desc, firstDiff(before, after)), map[string]any{"input": desc, "before": clipStr(before, 1500), "after": clipStr(after, 1500)})
		}
	}
	if c.Rec.WantSample() && idx%37 == 0 {
		c.Rec.Sample(map[string]any{"input": desc, "calls": len(calls)})
	}
}
