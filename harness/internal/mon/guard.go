package mon

import (
	"fmt"
	"runtime/debug"
	"strings"
	"syscall"
	"unsafe"
)

// Guard-page sanitizer written for this task. An operand is carved out of an anonymous mmap
// region so that it lies flush against a PROT_NONE page (at its end, or at its beginning):
//
//	[ PROT_NONE page ][ accessible pages: slack(canary) | operand | slack(canary) ][ PROT_NONE page ]
//
// A load or store that leaves the operand by 1..4096 bytes on the flush side faults (SIGSEGV,
// turned into a recoverable panic by debug.SetPanicOnFault); a store into the slack on the other
// side changes the canary pattern, which is re-checked after the call. Go's bounds checks, the
// race detector and -asan do not see inside the assembly kernels; this does.

const pageSize = 4096

// Canary is the byte pattern of slack regions.
const Canary = 0xA5

// Guard is one guarded operand.
type Guard struct {
	region []byte // whole mapping including both guard pages
	body   []byte // accessible part
	off, n int    // operand = body[off:off+n]
	AtEnd  bool
}

// NewGuard maps n bytes (n>0) of accessible operand memory. atEnd places the operand flush
// against the trailing guard page, otherwise flush against the leading one. shift moves the
// operand away from the flush boundary by that many bytes (used to produce deliberately
// misaligned operands; 0 for the tightest placement).
func NewGuard(n int, atEnd bool, shift int) (*Guard, error) {
	if n <= 0 {
		n = 1
	}
	pages := (n + shift + pageSize - 1) / pageSize
	total := (pages + 2) * pageSize
	region, err := syscall.Mmap(-1, 0, total, syscall.PROT_READ|syscall.PROT_WRITE, syscall.MAP_ANON|syscall.MAP_PRIVATE)
	if err != nil {
		return nil, err
	}
	if err := syscall.Mprotect(region[:pageSize], syscall.PROT_NONE); err != nil {
		_ = syscall.Munmap(region)
		return nil, err
	}
	if err := syscall.Mprotect(region[total-pageSize:], syscall.PROT_NONE); err != nil {
		_ = syscall.Munmap(region)
		return nil, err
	}
	g := &Guard{region: region, body: region[pageSize : total-pageSize : total-pageSize], n: n, AtEnd: atEnd}
	if atEnd {
		g.off = len(g.body) - n - shift
	} else {
		g.off = shift
	}
	for i := range g.body {
		g.body[i] = Canary
	}
	return g, nil
}

// MustGuard is NewGuard that panics on mmap failure (a broken monitor, not a verdict).
func MustGuard(n int, atEnd bool, shift int) *Guard {
	g, err := NewGuard(n, atEnd, shift)
	if err != nil {
		panic("verif: mmap for guard pages failed: " + err.Error())
	}
	return g
}

// Bytes returns the operand (len == cap == n).
func (g *Guard) Bytes() []byte { return g.body[g.off : g.off+g.n : g.off+g.n] }

// Float32s views the operand as []float32 (n must be a multiple of 4 and the placement 4-aligned).
func (g *Guard) Float32s() []float32 {
	b := g.Bytes()
	return unsafe.Slice((*float32)(unsafe.Pointer(&b[0])), len(b)/4)
}

// Float64s views the operand as []float64.
func (g *Guard) Float64s() []float64 {
	b := g.Bytes()
	return unsafe.Slice((*float64)(unsafe.Pointer(&b[0])), len(b)/8)
}

// Addr is the operand's address.
func (g *Guard) Addr() uintptr { return uintptr(unsafe.Pointer(&g.body[g.off])) }

// SlackBytes is the number of canary bytes around the operand.
func (g *Guard) SlackBytes() int { return len(g.body) - g.n }

// CanaryIntact re-checks the slack. It returns the offset (relative to the operand start,
// negative = before) of the first changed byte.
func (g *Guard) CanaryIntact() (ok bool, at int) {
	for i := 0; i < g.off; i++ {
		if g.body[i] != Canary {
			return false, i - g.off
		}
	}
	for i := g.off + g.n; i < len(g.body); i++ {
		if g.body[i] != Canary {
			return false, i - g.off
		}
	}
	return true, 0
}

// Reset refills the slack with the canary pattern.
func (g *Guard) Reset() {
	for i := 0; i < g.off; i++ {
		g.body[i] = Canary
	}
	for i := g.off + g.n; i < len(g.body); i++ {
		g.body[i] = Canary
	}
}

// Free unmaps the region.
func (g *Guard) Free() {
	if g.region != nil {
		_ = syscall.Munmap(g.region)
		g.region, g.body = nil, nil
	}
}

// Contains reports whether addr lies in this mapping's guard pages or body, and where.
func (g *Guard) Where(addr uintptr) string {
	base := uintptr(unsafe.Pointer(&g.region[0]))
	if addr < base || addr >= base+uintptr(len(g.region)) {
		return ""
	}
	d := int(addr - base)
	switch {
	case d < pageSize:
		return fmt.Sprintf("leading guard page, %d bytes before the operand", g.off+pageSize-d)
	case d >= len(g.region)-pageSize:
		return fmt.Sprintf("trailing guard page, %d bytes past the operand end", d-pageSize-g.off-g.n)
	default:
		return fmt.Sprintf("accessible body at operand offset %d", d-pageSize-g.off)
	}
}

// Fault describes a memory fault caught while running f.
type Fault struct {
	Faulted bool
	Panic   bool   // a non-fault panic
	Text    string // panic text
	Addr    uintptr
	HasAddr bool
	Stack   string
}

type addrer interface{ Addr() uintptr }

// CatchFault runs f with faults turned into panics and reports what happened.
func CatchFault(f func()) (ft Fault) {
	old := debug.SetPanicOnFault(true)
	defer debug.SetPanicOnFault(old)
	defer func() {
		if v := recover(); v != nil {
			ft.Text = fmt.Sprint(v)
			st := string(debug.Stack())
			if len(st) > 4000 {
				st = st[:4000]
			}
			ft.Stack = st
			if a, ok := v.(addrer); ok {
				ft.Faulted, ft.Addr, ft.HasAddr = true, a.Addr(), true
			} else if strings.Contains(ft.Text, "fault address") || strings.Contains(ft.Text, "invalid memory address") {
				ft.Faulted = true
			} else {
				ft.Panic = true
			}
		}
	}()
	f()
	return
}
