// Package mon holds the monitors: instrumented readers, allocation watch, guard pages.
package mon

import (
	"errors"
	"io"
)

// ErrInjected is the non-EOF error injected by fault readers.
var ErrInjected = errors.New("verif: injected I/O error")

// RS is an instrumented io.ReadSeeker / io.ReaderAt over a byte slice. It implements every
// reader behaviour the checks need: counting, short reads from a schedule, data-with-EOF on
// the last read, truncation with a chosen terminal error, failing Seek, and a yield hook.
type RS struct {
	Data        []byte
	Pos         int64
	Limit       int    // deliver Data[:Limit]; <0 means len(Data)
	EndErr      error  // error returned at Limit (nil means io.EOF)
	EOFWithData bool   // the read that reaches Limit returns (n>0, EndErr)
	Sched       []int  // chunk sizes, cycled; nil = as much as asked
	si          int    //
	SeekFail    bool   // Seek returns ErrInjected
	Yield       func() // called on every Read (C05 interleaving widening)
	// ZeroEvery > 0: every ZeroEvery-th Read call (never two in a row) returns (0, nil) before
	// end of input - discouraged by the io.Reader contract but legal; bufio tolerates 100 in a
	// row, io.ReadFull any number.
	ZeroEvery int
	ZeroReads int

	Requested      int64 // sum of len(p) over Read calls issued before end of input
	RequestedAtEOF int64 // sum of len(p) over Read calls issued at end of input (they deliver nothing)
	EOFReads       int   // Read calls issued at end of input (they deliver nothing)
	Delivered      int64
	Reads          int
	ShortReads     int
	Seeks          int
	MaxPos         int64
}

func NewRS(b []byte) *RS { return &RS{Data: b, Limit: -1} }

func (r *RS) limit() int64 {
	if r.Limit < 0 || r.Limit > len(r.Data) {
		return int64(len(r.Data))
	}
	return int64(r.Limit)
}

func (r *RS) endErr() error {
	if r.EndErr == nil {
		return io.EOF
	}
	return r.EndErr
}

func (r *RS) Read(p []byte) (int, error) {
	r.Reads++
	if r.Yield != nil {
		r.Yield()
	}
	if len(p) == 0 {
		return 0, nil
	}
	lim := r.limit()
	if r.Pos >= lim {
		r.EOFReads++
		r.RequestedAtEOF += int64(len(p))
		return 0, r.endErr()
	}
	if r.ZeroEvery > 0 && r.Reads%r.ZeroEvery == 0 {
		r.ZeroReads++
		return 0, nil
	}
	r.Requested += int64(len(p))
	n := int64(len(p))
	if len(r.Sched) > 0 {
		c := int64(r.Sched[r.si%len(r.Sched)])
		r.si++
		if c < 1 {
			c = 1
		}
		if c < n {
			n = c
			r.ShortReads++
		}
	}
	if r.Pos+n > lim {
		n = lim - r.Pos
	}
	copy(p, r.Data[r.Pos:r.Pos+n])
	r.Pos += n
	r.Delivered += n
	if r.Pos > r.MaxPos {
		r.MaxPos = r.Pos
	}
	if r.EOFWithData && r.Pos >= lim {
		return int(n), r.endErr()
	}
	return int(n), nil
}

func (r *RS) Seek(off int64, whence int) (int64, error) {
	r.Seeks++
	if r.SeekFail {
		return r.Pos, ErrInjected
	}
	var abs int64
	switch whence {
	case io.SeekStart:
		abs = off
	case io.SeekCurrent:
		abs = r.Pos + off
	case io.SeekEnd:
		abs = int64(len(r.Data)) + off
	default:
		return 0, errors.New("verif: bad whence")
	}
	if abs < 0 {
		return 0, errors.New("verif: negative position")
	}
	r.Pos = abs
	return abs, nil
}

func (r *RS) ReadAt(p []byte, off int64) (int, error) {
	r.Reads++
	lim := r.limit()
	if off >= lim {
		r.EOFReads++
		return 0, r.endErr()
	}
	r.Requested += int64(len(p))
	n := copy(p, r.Data[off:lim])
	if n < len(p) {
		return n, r.endErr()
	}
	return n, nil
}

// OnlyReader hides Seek/ReadAt and any other interface.
type OnlyReader struct{ R io.Reader }

func (o OnlyReader) Read(p []byte) (int, error) { return o.R.Read(p) }

// FarRS is an io.ReadSeeker whose data lies at a large absolute position of a (virtual) larger
// object: positions below Base read as zeros, positions from Base on deliver Data. It stands for
// the section of a very large file or block device that a caller hands over positioned.
type FarRS struct {
	Base int64
	Data []byte
	Pos  int64
	// SeekTargets records the absolute positions asked for.
	SeekTargets []int64
}

func (r *FarRS) Read(p []byte) (int, error) {
	if len(p) == 0 {
		return 0, nil
	}
	end := r.Base + int64(len(r.Data))
	if r.Pos >= end {
		return 0, io.EOF
	}
	n := 0
	for n < len(p) && r.Pos < end {
		if r.Pos < r.Base {
			p[n] = 0
		} else {
			p[n] = r.Data[r.Pos-r.Base]
		}
		n++
		r.Pos++
	}
	return n, nil
}

func (r *FarRS) Seek(off int64, whence int) (int64, error) {
	var abs int64
	switch whence {
	case io.SeekStart:
		abs = off
	case io.SeekCurrent:
		abs = r.Pos + off
	case io.SeekEnd:
		abs = r.Base + int64(len(r.Data)) + off
	default:
		return 0, errors.New("verif: bad whence")
	}
	if abs < 0 {
		return 0, errors.New("verif: negative position")
	}
	r.SeekTargets = append(r.SeekTargets, abs)
	r.Pos = abs
	return abs, nil
}
