// vrun is both the driver and the worker of the runtime-monitoring checks.
package main

import (
	"flag"
	"fmt"
	"os"
	"path/filepath"
	"runtime/pprof"
	"strconv"

	"verif/harness/internal/core"
	"verif/harness/internal/props"
)

func main() {
	if p := os.Getenv("VERIF_PROBE"); p != "" {
		// first-call probe of C04: this process does nothing but the probed operation
		os.Exit(props.RunProbe(p))
	}
	var (
		worker    = flag.Bool("worker", false, "run as worker")
		prop      = flag.String("prop", "", "property id")
		tier      = flag.String("tier", "", "quick|thorough")
		seedS     = flag.String("seed", "", "seed")
		from      = flag.Int("from", 0, "")
		to        = flag.Int("to", 0, "")
		stride    = flag.Int("stride", 1, "")
		out       = flag.String("out", "", "")
		progress  = flag.String("progress", "", "")
		hang      = flag.String("hang", "", "")
		rundir    = flag.String("rundir", "", "")
		wid       = flag.Int("wid", 0, "")
		replaying = flag.Bool("replaying", false, "")
		replay    = flag.String("replay", "", "replay file")
		verifDir  = flag.String("verif", "/verif", "")
		workers   = flag.Int("workers", 16, "")
		raceBin   = flag.String("racebin", "", "")
	)
	flag.Parse()
	if *tier == "" {
		*tier = os.Getenv("VERIF_TIER")
	}
	if *tier == "" {
		*tier = "quick"
	}
	if *tier != "quick" && *tier != "thorough" {
		fmt.Fprintln(os.Stderr, "tier must be quick or thorough")
		os.Exit(2)
	}
	if *seedS == "" {
		*seedS = os.Getenv("VERIF_SEED")
	}
	if *seedS == "" {
		*seedS = "1"
	}
	seed, err := strconv.ParseUint(*seedS, 10, 64)
	if err != nil {
		// any string is accepted as a seed
		seed = core.HashStr(*seedS)
	}
	e := props.Lookup(*prop)
	if e == nil {
		fmt.Fprintf(os.Stderr, "unknown property %q\n", *prop)
		os.Exit(2)
	}
	if *worker {
		if pf := os.Getenv("VERIF_CPUPROFILE"); pf != "" {
			if f, err := os.Create(pf); err == nil {
				_ = pprof.StartCPUProfile(f)
				defer pprof.StopCPUProfile()
			}
		}
		c := &core.Ctx{Prop: *prop, Tier: *tier, Seed: seed, Rec: core.NewRecorder(*prop, *tier, seed), Replay: *replaying, RunDir: *rundir, WorkerID: *wid}
		rc := core.RunWorker(e, c, *from, *to, *stride, *out, *progress, *hang)
		pprof.StopCPUProfile()
		os.Exit(rc)
	}
	self, _ := os.Executable()
	rb := *raceBin
	if rb == "" {
		rb = filepath.Join(filepath.Dir(self), "vrun-race")
	}
	os.Exit(core.Drive(e, core.DriverOpts{VerifDir: *verifDir, Self: self, SelfRace: rb, Tier: *tier, Seed: seed, Workers: *workers, Replay: *replay}))
}
